import TsVerif.C16.NodeTypes
/-!
# C16 — a model of how node types are DERIVED from a grammar, and its soundness

Model of the part of `crates/generate/src/node_types.rs` (`get_variable_info`) that decides which child
kinds, under which fields, with which `required` / `multiple` flags a rule can have:

* the grammar after preparation: every variable (rule) has productions, a production is a list of
  steps, a step is a symbol with an optional field and an optional alias; symbols are tokens or
  rules, visible (with a node type) or hidden;
* the derivation semantics of a node's children (`KidsN`): a visible step contributes one child
  (carrying the step's field), a hidden token nothing, a hidden rule the children of one of ITS
  derivations, each additionally carrying the step's field (fields are inherited through hidden rules);
* `Info`: per variable the admitted child kinds (all / per field) and the quantity bounds
  (0, 1, 2 = "many" for the maximum — `multiple`; 0 / 1 for the minimum — `required`);
* `Closed G I`: the inequations `get_variable_info` iterates to a fixed point
  (`compute_variable_info_fixed_point`, `inherit_hidden_child_info`, `ChildQuantity::append/union`).

Not in the model (the theorem is `_partial`): inlined rules, supertypes, default aliases merging node
types of different rules, extras, the `children_without_fields` split, and the fixed-point ITERATION
itself (the theorem is about any closed `Info`, in particular the least one the code computes).
-/
namespace TsVerif.C16.Derive
open TsVerif.C16

structure Step where
  sym : Nat
  field : Option String
  alias : Option TypeRef
  deriving Repr, Inhabited

inductive SymKind where
  | token (ty : Option TypeRef)              -- visible type, or `none` for a hidden token
  | rule (idx : Nat) (ty : Option TypeRef)   -- variable index; visible type, or `none` for a hidden rule
  deriving Repr, Inhabited

structure Grammar where
  syms : List SymKind
  prods : List (List (List Step))            -- variable index → productions → steps
  deriving Repr, Inhabited

def Grammar.kind (G : Grammar) (s : Nat) : SymKind := G.syms.getD s (.token none)
def Grammar.prodsOf (G : Grammar) (v : Nat) : List (List Step) := G.prods.getD v []

/-- the node type a step shows in the tree: its alias, else the symbol's own visible type -/
def visTy (G : Grammar) (s : Step) : Option TypeRef :=
  match s.alias with
  | some a => some a
  | none => match G.kind s.sym with
    | .token ty => ty
    | .rule _ ty => ty

/-- a child as the parent sees it: its type and the fields it carries -/
structure Child where
  ty : TypeRef
  fields : List String
  deriving Repr, Inhabited

def addField (fo : Option String) (c : Child) : Child := { c with fields := fo.toList ++ c.fields }

/-- how many children carry field `f` -/
def cnt (f : String) (ks : List Child) : Nat := (ks.filter (fun c => decide (f ∈ c.fields))).length

/-- named children that carry no field (what `"children"` of node-types describes) -/
def isPlain (c : Child) : Bool := c.fields.isEmpty && c.ty.named
def cntPlain (ks : List Child) : Nat := (ks.filter isPlain).length

/-- the children contributed by one step, given the derivations `K` of hidden rules -/
def StepKids (G : Grammar) (K : Nat → List Child → Prop) (s : Step) (k : List Child) : Prop :=
  match visTy G s with
  | some ty => k = [⟨ty, s.field.toList⟩]
  | none => match G.kind s.sym with
    | .token _ => k = []
    | .rule h _ => ∃ ks, K h ks ∧ k = ks.map (addField s.field)

def StepsKids (G : Grammar) (K : Nat → List Child → Prop) : List Step → List Child → Prop
  | [], ks => ks = []
  | s :: rest, ks => ∃ k1 k2, ks = k1 ++ k2 ∧ StepKids G K s k1 ∧ StepsKids G K rest k2

/-- the children sequences variable `v` can derive with hidden rules nested at most `n` deep -/
def KidsN (G : Grammar) : Nat → Nat → List Child → Prop
  | 0, _, _ => False
  | n + 1, v, ks => ∃ p ∈ G.prodsOf v, StepsKids G (KidsN G n) p ks

/-- what node types says about the children of a rule -/
structure Info where
  children : Nat → List TypeRef
  fieldTypes : Nat → String → List TypeRef
  childMax : Nat → Nat
  childMin : Nat → Nat
  fieldMax : Nat → String → Nat
  fieldMin : Nat → String → Nat
  plainTypes : Nat → List TypeRef      -- kinds of named children without a field
  plainMax : Nat → Nat
  plainMin : Nat → Nat

/-- upper bound contributed by a step to the number of children / of children with field `f`
(2 = many; sums saturate because only `< 2` is ever used) -/
def stepChildMax (G : Grammar) (I : Info) (s : Step) : Nat :=
  match visTy G s with
  | some _ => 1
  | none => match G.kind s.sym with
    | .token _ => 0
    | .rule h _ => I.childMax h

def stepFieldMax (G : Grammar) (I : Info) (f : String) (s : Step) : Nat :=
  match visTy G s with
  | some _ => if s.field = some f then 1 else 0
  | none => match G.kind s.sym with
    | .token _ => 0
    | .rule h _ => if s.field = some f then I.childMax h else I.fieldMax h f

def stepChildMin (G : Grammar) (I : Info) (s : Step) : Nat :=
  match visTy G s with
  | some _ => 1
  | none => match G.kind s.sym with
    | .token _ => 0
    | .rule h _ => I.childMin h

def stepFieldMin (G : Grammar) (I : Info) (f : String) (s : Step) : Nat :=
  match visTy G s with
  | some _ => if s.field = some f then 1 else 0
  | none => match G.kind s.sym with
    | .token _ => 0
    | .rule h _ => if s.field = some f then I.childMin h else I.fieldMin h f

def stepPlainMax (G : Grammar) (I : Info) (s : Step) : Nat :=
  match visTy G s with
  | some ty => if s.field = none ∧ ty.named = true then 1 else 0
  | none => match G.kind s.sym with
    | .token _ => 0
    | .rule h _ => if s.field = none then I.plainMax h else 0

def stepPlainMin (G : Grammar) (I : Info) (s : Step) : Nat :=
  match visTy G s with
  | some ty => if s.field = none ∧ ty.named = true then 1 else 0
  | none => match G.kind s.sym with
    | .token _ => 0
    | .rule h _ => if s.field = none then I.plainMin h else 0

def sumBy (g : Step → Nat) : List Step → Nat
  | [] => 0
  | s :: rest => g s + sumBy g rest

/-- the inequations of `get_variable_info` for one step of a production of `v` -/
def StepClosed (G : Grammar) (I : Info) (v : Nat) (s : Step) : Prop :=
  match visTy G s with
  | some ty => ty ∈ I.children v ∧ (∀ f, s.field = some f → ty ∈ I.fieldTypes v f) ∧
      (s.field = none → ty.named = true → ty ∈ I.plainTypes v)
  | none => match G.kind s.sym with
    | .token _ => True
    | .rule h _ =>
      (∀ t ∈ I.children h, t ∈ I.children v) ∧
      (∀ g, ∀ t ∈ I.fieldTypes h g, t ∈ I.fieldTypes v g) ∧
      (∀ f, s.field = some f → ∀ t ∈ I.children h, t ∈ I.fieldTypes v f) ∧
      (s.field = none → ∀ t ∈ I.plainTypes h, t ∈ I.plainTypes v)

/-- `I` is closed under the inequations for every production of every variable:
types flow up through hidden rules, the bounds of a variable dominate every production's sum -/
def Closed (G : Grammar) (I : Info) : Prop :=
  ∀ v, ∀ p ∈ G.prodsOf v,
    (∀ s ∈ p, StepClosed G I v s) ∧
    (I.childMax v < 2 → sumBy (stepChildMax G I) p ≤ I.childMax v) ∧
    (∀ f, I.fieldMax v f < 2 → sumBy (stepFieldMax G I f) p ≤ I.fieldMax v f) ∧
    (I.childMin v ≤ sumBy (stepChildMin G I) p) ∧
    (∀ f, I.fieldMin v f ≤ sumBy (stepFieldMin G I f) p) ∧
    (I.plainMax v < 2 → sumBy (stepPlainMax G I) p ≤ I.plainMax v) ∧
    (I.plainMin v ≤ sumBy (stepPlainMin G I) p)

/-- what soundness means for one variable and one derived children sequence -/
def Admits (I : Info) (v : Nat) (ks : List Child) : Prop :=
  (∀ c ∈ ks, c.ty ∈ I.children v ∧ ∀ f ∈ c.fields, c.ty ∈ I.fieldTypes v f) ∧
  (I.childMax v < 2 → ks.length ≤ I.childMax v) ∧
  (∀ f, I.fieldMax v f < 2 → cnt f ks ≤ I.fieldMax v f) ∧
  (I.childMin v ≤ ks.length) ∧
  (∀ f, I.fieldMin v f ≤ cnt f ks) ∧
  (∀ c ∈ ks, isPlain c = true → c.ty ∈ I.plainTypes v) ∧
  (I.plainMax v < 2 → cntPlain ks ≤ I.plainMax v) ∧
  (I.plainMin v ≤ cntPlain ks)

end TsVerif.C16.Derive
