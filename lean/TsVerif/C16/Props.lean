import TsVerif.C16.Lemmas
import TsVerif.C16.NodeTypesLemmas
import TsVerif.C16.Names
import TsVerif.C16.DeriveLemmas
import TsVerif.C16.Collapse
import TsVerif.C16.DeriveExecLemmas
import TsVerif.C16.Inline
import TsVerif.C16.Lfp
import TsVerif.C16.DriverTie
/-!
# C16 — node-types.json, symbol tables and look-ahead sets are sound for every tree

Property text: "Every error-free tree a generated parser produces conforms to the node-types file
generated with it: each node type is listed, each child appears under the field (or the unnamed
children set) the file allows with an allowed type (through supertypes), required sets are
non-empty and non-multiple sets hold at most one node.  Symbol and field names round-trip through
their ids, and the look-ahead iterator of a parse state lists every token the parser can accept in
that state (merged states may list more, never fewer)."

Clause map — each phrase of the property text → theorems, with the status
  [P]  proved, for ALL tables / files / trees / grammars of the model (no hypothesis)
  [Ph] proved under a DECIDABLE hypothesis that the check evaluates on every real dump / file / grammar
  [T]  tie: a code-shaped port is compared with the real function on all states × symbols × names of each language
  [J]  judged only: a Lean judge on real outputs, no ∀-theorem about the implementation

1. "Every error-free tree a generated parser produces conforms to the node-types file generated with it"
   [P]  `conforms_iff` — the executable judge decides exactly the declarative `Conforms`, for every file and tree
        (no well-formedness hypothesis: `closure_always_converges`).
   [J]  every error-free tree of the sampled documents of every generated language is judged (`checkConforms`).
   [Ph] for ALL trees of a grammar, not only sampled ones: `real_file_admits` (hypothesis `closedB G I = true`, evaluated with
        `I` = the REAL node-types.json and `G` = the grammar's flattened productions after the verified inlining rounds —
        obligation `model:real-node-types-are-closed`) ⇒ every children sequence any rule can derive is admitted;
        `derive_sound_partial` / `derive_entry_fields_partial` (hypothesis `Closed`), `inline_round` + `inlined_file_admits`
        (process_inlines as substitution), `extras_transparent` + `derive_entry_fields_extras` (extras anywhere),
        `lfp_closed` / `lfp_least` / `lfp_admits` (the iteration reaches the least closed information within explicit fuel).
        PARTIAL: `G` is produced by the explorer's flattening (c16_flatten.rs), tied to the real prepare_grammar only by the
        production-shape correspondence [T] (child count + own field per child index of every named rule = real reduce
        actions); aliases per index, precedence and the repeat encoding are not compared.
2. "each node type is listed"
   [P]  part of `Conforms` (`NodeOK`: an entry with the node's (type, named) exists and is not a supertype entry).
   [Ph] `kinds_listed_sound` — on the level of the LANGUAGE: every symbol a node can carry (visible, not an inlined rule's
        name) has an entry, every supertype symbol a supertype entry; hypothesis `kindsListed`, evaluated on every real
        (symbol table, node-types file) pair.  [J] per node: kind id ↔ kind name ↔ id round trip.
3. "each child appears under the field (or the unnamed children set) the file allows with an allowed type (through supertypes)"
   [P]  `ChildOK` in `Conforms`; `allowed_iff_reach` (the saturation through `subtypes` computes exactly `Reach`, any depth);
        `collapse_preserves_admitted` (the generator's supertype collapsing does not change what a list admits);
        model level: clauses 1 and 6 of `Admits`.  [J] `subtypes` lists = the runtime's supertype map (`subtypesAgree`).
4. "required sets are non-empty and non-multiple sets hold at most one node"
   [P]  `QuantOK` in `Conforms` (fields and `children`); model level: clauses 2–5, 7, 8 of `Admits`
        (`childMax/fieldMax/plainMax < 2` bound the count, `…Min` are lower bounds).
5. "Symbol and field names round-trip through their ids"
   [Ph] `name_roundtrip` — hypothesis `namesRoundTrip ∧ pubConsistent` (decidable, evaluated on every real symbol table over
        the port `symbolForName`): every symbol with a node kind is found again from its public name and namedness.
   [Ph] `field_roundtrip` — hypothesis: pairwise distinct field names (decidable, evaluated on every real table).
   [P]  `symbol_type_flags` — the port of `ts_language_symbol_type` in terms of the metadata.
   [T]  `symbolForName`, `fieldIdForName`, `symbolType` vs the real functions for every symbol / field / probe name
        (C API and Rust binding).  [J] id → name → id for every id through the real functions; out-of-range ids.
6. "the look-ahead iterator of a parse state lists every token the parser can accept in that state (merged states may
   list more, never fewer)"
   [Ph] `lookahead_enumerates`, `lookahead_perm_nonzero`, `lookahead_values`, `lookaheadList_run` — hypothesis `tableWF`
        (decidable, evaluated on every real dump): for every state, large or small, iterating the port of
        `ts_lookahead_iterator__next` yields exactly the symbols with `ts_language_lookup ≠ 0`, each once, with the
        parser's own table value.  [P] `lookahead_done_stays`.
   [Ph] `lookahead_covers_driver` / `lookahead_covers_steps` — "the parser" = the code-shaped LR driver of C03 on the
        decoded table; hypothesis `actsAgree` (decoded cells = non-zero raw cells; evaluated on every dump): in EVERY
        configuration in which the driver shifts, reduces or accepts, its look-ahead is listed by the iterator of the
        state on top of the stack — so for every tree the driver accepts, every (state, look-ahead) on the way.
        `lookahead_yields_have_actions` (hypothesis `cellsHaveActions`): conversely every listed terminal has actions.
   [T]  ports of `ts_language_lookup`, `ts_language_lookaheads`, `ts_lookahead_iterator__next` vs the real functions for
        ALL states × ALL symbols (C) and the Rust iterator.  [J] every (state, look-ahead) the REAL parser acted on in the
        sampled parses (parse log) is listed by the REAL iterator.
   NOT proved here: that the real `ts_parser__advance` is the C03 driver (that tie belongs to the C03 check).

Boundary conventions fixed here (the English leaves them open): extras may appear anywhere and
are exempt from the child-membership and quantity clauses but must themselves conform; an
anonymous child without a field is not described by the file (the documentation says `children`
describes the *named* children without fields); a supertype entry never types a node of the tree.
-/
namespace TsVerif.C16

/-! ## look-ahead sets -/

/-- The client-visible list equals the relational run (no fuel effects). -/
theorem lookaheadList_run (L : Lang) (hwf : tableWF L = true) (s : Nat) (hs : s < L.stateCount) :
    Run L (lookaheads L s) (lookaheadList L s) := by
  obtain ⟨xs, hrun, hlen, _, _⟩ := lookahead_core L hwf s hs
  have : lookaheadList L s = xs := collect_of_run hrun _ hlen
  rw [this]; exact hrun

/-- `lookahead_enumerates`: for every well-formed table and every state, the iterator lists a
symbol iff the parse table has an entry for it in that state, and lists no symbol twice. -/
theorem lookahead_enumerates (L : Lang) (hwf : tableWF L = true) (s : Nat) (hs : s < L.stateCount) :
    (lookaheadSyms L s).Nodup ∧
    ∀ sym, sym ∈ lookaheadSyms L s ↔ (sym < L.symbolCount ∧ lookup L s sym ≠ 0) := by
  obtain ⟨xs, hrun, hlen, hnd, hmem⟩ := lookahead_core L hwf s hs
  have e : lookaheadList L s = xs := collect_of_run hrun _ hlen
  refine ⟨by simpa [lookaheadSyms, e] using hnd, ?_⟩
  intro sym
  simp only [lookaheadSyms, e, List.mem_map]
  constructor
  · rintro ⟨⟨a, v⟩, hm, rfl⟩
    have := (hmem a v).1 hm
    exact ⟨this.1, by rw [this.2.1]; exact this.2.2⟩
  · rintro ⟨h1, h2⟩
    exact ⟨(sym, lookup L s sym), (hmem sym _).2 ⟨h1, rfl, h2⟩, rfl⟩

/-- `lookahead_values`: the value the iterator exposes with a symbol (`table_value`, from which
`next_state` / the action list are read) is the parser's own table entry. -/
theorem lookahead_values (L : Lang) (hwf : tableWF L = true) (s : Nat) (hs : s < L.stateCount) :
    ∀ p ∈ lookaheadList L s, p.2 = lookup L s p.1 ∧ p.2 ≠ 0 := by
  obtain ⟨xs, hrun, hlen, _, hmem⟩ := lookahead_core L hwf s hs
  have e : lookaheadList L s = xs := collect_of_run hrun _ hlen
  rintro ⟨a, v⟩ hp
  rw [e] at hp
  have := (hmem a v).1 hp
  exact ⟨this.2.1.symm, this.2.2⟩

/-- "exactly, each once": the iterator's output is a permutation of the exhaustive scan. -/
theorem lookahead_perm_nonzero (L : Lang) (hwf : tableWF L = true) (s : Nat) (hs : s < L.stateCount) :
    (lookaheadSyms L s).Perm (nonzeroSyms L s) := by
  obtain ⟨hnd, hmem⟩ := lookahead_enumerates L hwf s hs
  have hnd2 : (nonzeroSyms L s).Nodup := by
    unfold nonzeroSyms
    exact List.Nodup.sublist List.filter_sublist List.nodup_range
  refine (List.perm_ext_iff_of_nodup hnd hnd2).2 ?_
  intro sym
  rw [hmem]
  simp [nonzeroSyms]

/-- `lookahead_covers_driver`: "lists every token the parser can accept in that state", with the
parser = the code-shaped LR driver of C03 reading the decoded table `tbl`.  For every raw table layout
`L` that is well formed and every decoded table whose non-empty cells are non-zero cells of `L`
(`actsAgree`, decidable, evaluated on every real dump): in EVERY configuration in which the driver has
an effective action on its look-ahead — the next token, or the end symbol — that look-ahead is listed
by the iterator of the state on top of the stack.  Never fewer; merged states may list more. -/
theorem lookahead_covers_driver (L : Lang) (tbl : C03.Table) (hwf : tableWF L = true) (hag : actsAgree L tbl = true)
    (c : C03.Conf) (hact : driverActs tbl (consulted tbl c).1 (consulted tbl c).2) :
    (consulted tbl c).2 ∈ lookaheadSyms L (consulted tbl c).1 := by
  have hne : tbl.actions (consulted tbl c).1 (consulted tbl c).2 ≠ [] := by
    intro h0
    apply hact
    unfold C03.effective
    rw [h0]; rfl
  obtain ⟨h1, h2, h3⟩ := actsAgree_sound L tbl hag _ _ hne
  exact ((lookahead_enumerates L hwf _ h1).2 _).2 ⟨h2, h3⟩

/-- in particular at every step of every run, and at the accepting step: for every tree the driver
accepts, every (state, look-ahead) pair it went through is listed -/
theorem lookahead_covers_steps (L : Lang) (tbl : C03.Table) (hwf : tableWF L = true) (hag : actsAgree L tbl = true)
    (c : C03.Conf) (h : (∃ c', C03.step tbl c = .inl c') ∨ (∃ t, C03.step tbl c = .inr (.accepted t))) :
    (consulted tbl c).2 ∈ lookaheadSyms L (consulted tbl c).1 := by
  rcases h with ⟨c', h⟩ | ⟨t, h⟩
  · exact lookahead_covers_driver L tbl hwf hag c (step_inl_acts tbl c c' h)
  · exact lookahead_covers_driver L tbl hwf hag c (step_accept_acts tbl c t h)

/-- `lookahead_yields_have_actions`: conversely, every TERMINAL the iterator yields in a state has a
non-empty action list there (`cellsHaveActions`, decidable, evaluated on every real dump). -/
theorem lookahead_yields_have_actions (L : Lang) (tbl : C03.Table) (hwf : tableWF L = true)
    (hc : cellsHaveActions L tbl = true) (s : Nat) (hs : s < L.stateCount) (a : Nat)
    (ha : a ∈ lookaheadSyms L s) (hat : a < L.tokenCount) : tbl.actions s a ≠ [] := by
  have h1 := ((lookahead_enumerates L hwf s hs).2 a).1 ha
  unfold cellsHaveActions at hc
  have h2 := (List.all_eq_true.1 ((List.all_eq_true.1 hc) s (List.mem_range.2 hs))) a (List.mem_range.2 hat)
  simp only [Bool.or_eq_true, beq_iff_eq, Bool.not_eq_true', List.isEmpty_eq_false_iff] at h2
  rcases h2 with h2 | h2
  · exact absurd h2 h1.2
  · exact h2

/-- once `next` has returned false it keeps returning false and the iterator no longer moves. -/
theorem lookahead_done_stays (L : Lang) (it : Iter) (h : (next L it).1 = false) :
    next L (next L it).2 = (false, (next L it).2) := by
  have hdone : (next L it).2.phase = .done := by
    by_cases hp : it.phase = .done
    · simp [next, hp]
    · by_cases hs : it.isSmall = true
      · by_cases hd : it.data + 1 = it.groupEnd
        · by_cases hg : it.groupCount = 0
          · simp [next, hp, hs, hd, hg]
          · have : (next L it).1 = true := by simp [next, hp, hs, hd, hg]
            rw [this] at h; cases h
        · have : (next L it).1 = true := by simp [next, hp, hs, hd]
          rw [this] at h; cases h
      · by_cases hr : scanRow L it.data (if it.phase = .fresh then 0 else it.symbol + 1) ≥ L.symbolCount
        · simp [next, hp, hs, hr]
        · have : (next L it).1 = true := by simp [next, hp, hs, hr]
          rw [this] at h; cases h
  generalize next L it = r at hdone
  simp [next, hdone]

/-! ## node types -/

mutual
  theorem conforms_iff_wf (nt : NodeTypes) (h : ntWF nt = true) : ∀ vt : VT,
      checkConforms nt vt = true ↔ Conforms nt vt
    | .node ty ex fl kids => by
      simp only [checkConforms, Conforms, Bool.and_eq_true, nodeOK_iff h, conformsAll_iff nt h kids]
  theorem conformsAll_iff (nt : NodeTypes) (h : ntWF nt = true) : ∀ kids : List VT,
      checkAll nt kids = true ↔ ConformsAll nt kids
    | [] => by simp [checkAll, ConformsAll]
    | k :: ks => by
      simp only [checkAll, ConformsAll, Bool.and_eq_true, conforms_iff_wf nt h k, conformsAll_iff nt h ks]
end

/-- `conforms_iff`: for EVERY node-types file and EVERY tree the executable judge decides exactly the
declarative conformance.  (No side condition: the supertype saturation provably converges within
`closureFuel nt` rounds, `ntWF_always` — each round that is not yet closed adds a new member of the
finite set of types mentioned in `subtypes` lists.) -/
theorem conforms_iff (nt : NodeTypes) (vt : VT) : checkConforms nt vt = true ↔ Conforms nt vt :=
  conforms_iff_wf nt (ntWF_always nt) vt

/-- the saturation always converges -/
theorem closure_always_converges (nt : NodeTypes) (roots : List TypeRef) :
    (closure nt (closureFuel nt) roots).isSome = true := closure_isSome nt roots

/-- `allowed` decides "an allowed type (through supertypes)" for every saturating type list. -/
theorem allowed_iff_reach (nt : NodeTypes) (spec : ChildSpec) (t : TypeRef) :
    allowed nt spec t = true ↔ Reach nt spec.types t := allowed_iff (closure_isSome nt spec.types)

/-! ## derivation of node types from the grammar (model of `get_variable_info`) -/

open Derive in
/-- `derive_sound_partial`: for every prepared grammar `G` (productions of steps with fields and
aliases, visible / hidden tokens and rules) and every node-type information `I` that is closed under
the inequations `get_variable_info` iterates (`Closed`), EVERY children sequence that the derivation
semantics can produce for a rule `v` — through any nesting of hidden rules, with fields inherited
through them — is admitted: each child's kind is in `children v`, each (field, child kind) pair is in
`fieldTypes v field`, and the quantity flags hold (`childMax/fieldMax < 2`, i.e. not `multiple`, bounds
the count by it; `childMin/fieldMin`, i.e. `required`, is a lower bound).
PARTIAL: the model has no inlined rules, supertypes, extras, `children_without_fields` split or
cross-rule merging by default aliases, and the theorem is about closed information, not about the
iteration that computes the least one.  OPEN: the same statement for the full `generate_node_types`. -/
theorem derive_sound_partial (G : Grammar) (I : Info) (hcl : Closed G I) (n v : Nat) (ks : List Child)
    (h : KidsN G n v ks) : Admits I v ks :=
  kidsN_sound G I hcl n v ks h

namespace Derive

/-- the node-types entry the information gives for rule `v` (fields part) -/
def toEntry (I : Info) (v : Nat) (ty : TypeRef) (names : List String) : Entry :=
  { ty := ty, children := none, subtypes := none,
    fields := names.map (fun f => (f, { required := decide (1 ≤ I.fieldMin v f), multiple := decide (2 ≤ I.fieldMax v f),
                                        types := I.fieldTypes v f })) }

def kidVT (c : Child) : VT := .node c.ty false c.fields []

theorem countField_kidVT (ks : List Child) (f : String) : countField (ks.map kidVT) f = cnt f ks := by
  unfold countField cnt
  rw [List.filter_map, List.length_map]
  congr 1

end Derive

open Derive in
/-- `derive_entry_fields_partial`: in the vocabulary of `Conforms` — the entry built from closed
information admits every derived child under every field it carries (directly listed type) and its
`required` / `multiple` flags hold for the derived children. -/
theorem derive_entry_fields_partial (G : Grammar) (I : Info) (hcl : Closed G I) (nt : NodeTypes)
    (n v : Nat) (ks : List Child) (h : KidsN G n v ks) (ty : TypeRef) (names : List String)
    (hnames : ∀ c ∈ ks, ∀ f ∈ c.fields, f ∈ names) :
    (∀ k ∈ ks.map kidVT, ∀ f ∈ k.fields, ∃ fs ∈ (toEntry I v ty names).fields, fs.1 = f ∧ Reach nt fs.2.types k.ty) ∧
    (∀ fs ∈ (toEntry I v ty names).fields, QuantOK fs.2 (countField (ks.map kidVT) fs.1)) := by
  obtain ⟨a1, _, a3, _, a5, _⟩ := kidsN_sound G I hcl n v ks h
  constructor
  · intro k hk f hf
    simp only [List.mem_map] at hk
    obtain ⟨c, hc, rfl⟩ := hk
    simp only [kidVT, VT.fields] at hf
    refine ⟨(f, { required := decide (1 ≤ I.fieldMin v f), multiple := decide (2 ≤ I.fieldMax v f), types := I.fieldTypes v f }), ?_, rfl, ?_⟩
    · simp only [toEntry, List.mem_map]
      exact ⟨f, hnames c hc f hf, rfl⟩
    · exact Reach.base ((a1 c hc).2 f hf)
  · intro fs hfs
    simp only [toEntry, List.mem_map] at hfs
    obtain ⟨f, _, rfl⟩ := hfs
    refine ⟨fun hreq => ?_, fun hmul => ?_⟩
    · simp only [decide_eq_true_eq] at hreq
      simp only [countField_kidVT]
      have := a5 f; omega
    · simp only [decide_eq_false_iff_not] at hmul
      simp only [countField_kidVT]
      have := a3 f (by omega); omega

open Derive in
/-- `real_file_admits`: the executable check the driver runs on REAL data on every run — `closedB G I`
with `G` the productions of a generated grammar (after the inlining rounds) and `I` the real
node-types.json entries of the visible rules together with the iterated information of the hidden
ones — is sound: when it answers `true`, every children sequence any rule can derive is admitted by
that information (obligation `model:real-node-types-are-closed`). -/
theorem real_file_admits (G : Grammar) (I : InfoF) (h : closedB G I = true) (n v : Nat) (ks : List Child)
    (hk : KidsN G n v ks) : Admits I.toInfo v ks :=
  kidsN_sound G I.toInfo (closedB_sound G I h) n v ks hk

open Derive in
/-- `inline_round`: `process_inlines` as substitution.  The children sequences derivable in the grammar
whose productions have every reference to an inlined variable replaced by each of that variable's
productions (the inserted steps taking the reference's alias and field: `override`) are EXACTLY the
sequences derivable in the original grammar when such a reference contributes the children of one of
the variable's productions, spliced in place with the alias / field stamped on every step (`KidsNI`):
no node for the inlined variable, and an inner field is REPLACED by the reference's field. -/
theorem inline_round (G : Grammar) (inl : List Nat) (n v : Nat) (ks : List Child) :
    KidsN (inlineG G inl) n v ks ↔ KidsNI G inl n v ks :=
  kidsN_inlineG G inl n v ks

open Derive in
/-- `inlined_file_admits`: information closed under the INLINED productions admits every derivation of
the original grammar with the inlined rules spliced. -/
theorem inlined_file_admits (G : Grammar) (inl : List Nat) (I : Info) (hcl : Closed (inlineG G inl) I)
    (n v : Nat) (ks : List Child) (hk : KidsNI G inl n v ks) : Admits I v ks :=
  kidsN_sound _ I hcl n v ks ((kidsN_inlineG G inl n v ks).2 hk)

open Derive in
/-- `lfp_closed`: the iteration `stepS^n ⊥` (one round of the inequations of `get_variable_info`,
accumulating, from the empty table) with fuel `n ≥ lfpFuel G` = twice the number of table entries
((variable, kind), (variable, field, kind) and the quantity bounds of the grammar's universe) has
stopped changing and stands for `Closed` information — for EVERY grammar. -/
theorem lfp_closed (G : Grammar) (n : Nat) (hn : lfpFuel G ≤ n) :
    Closed G (toInfoS (Univ.of G) (iterS G (Univ.of G) n)) :=
  iterS_closed G n hn

open Derive in
/-- `lfp_least`: at every stage the iteration is below EVERY closed information `I` (its kinds are in
`I`'s sets; where `I` says "at most one / none" its maxima are at most `I`'s; its minima — `required` —
are at least `I`'s, compared up to "2 = many"): what the iteration reaches is the LEAST closed
information. -/
theorem lfp_least (G : Grammar) (I : Info) (hcl : Closed G I) (n : Nat) :
    InfoLe (Univ.of G).F (toInfoS (Univ.of G) (iterS G (Univ.of G) n)) I :=
  iterS_below G (Univ.of G) I hcl n

open Derive in
/-- so the least information itself admits every derivation -/
theorem lfp_admits (G : Grammar) (n v : Nat) (ks : List Child) (hk : KidsN G n v ks) : Admits (lfp G) v ks :=
  kidsN_sound G _ (iterS_closed G _ (Nat.le_refl _)) n v ks hk

/-! ### extras -/

theorem countField_filter (kids : List VT) (f : String) :
    countField kids f = ((kids.filter (fun k => !k.extra)).filter (fun k => decide (f ∈ k.fields))).length := by
  simp only [countField, List.filter_filter]
  congr 2
  funext k
  exact Bool.and_comm _ _

theorem countPlain_filter (kids : List VT) :
    countPlain kids = ((kids.filter (fun k => !k.extra)).filter (fun k => k.fields.isEmpty && k.ty.named)).length := by
  simp only [countPlain, List.filter_filter]
  congr 2
  funext k
  cases k.extra <;> cases k.fields.isEmpty <;> cases k.ty.named <;> rfl

/-- `extras_transparent`: an extra may appear anywhere in any children list; whether a node's entry
holds depends only on the children that are NOT flagged extra.  (The extra children themselves are
admitted through the `"extra": true` mark of their own entry: judge `extraUnmarked` on every tree,
and on the grammar level every visible extra symbol must carry the mark — part of `model_closed`.) -/
theorem extras_transparent (nt : NodeTypes) (e : Entry) (kids kids' : List VT)
    (h : kids'.filter (fun k => !k.extra) = kids.filter (fun k => !k.extra)) :
    EntryOK nt e kids' ↔ EntryOK nt e kids := by
  have key : ∀ ks : List VT, EntryOK nt e ks ↔
      (e.subtypes = none ∧ (∀ k ∈ ks.filter (fun k => !k.extra), ChildOK nt e k) ∧
       (∀ fs ∈ e.fields, QuantOK fs.2 ((ks.filter (fun k => !k.extra)).filter (fun k => decide (fs.1 ∈ k.fields))).length) ∧
       (∀ spec, e.children = some spec → QuantOK spec ((ks.filter (fun k => !k.extra)).filter (fun k => k.fields.isEmpty && k.ty.named)).length)) := by
    intro ks
    unfold EntryOK
    simp only [countField_filter, countPlain_filter, List.mem_filter, Bool.not_eq_true', and_imp]
  rw [key kids', key kids, h]

open Derive in
/-- `derive_entry_fields_extras`: `derive_entry_fields_partial` for a children list with extras
interleaved anywhere among the derived children. -/
theorem derive_entry_fields_extras (G : Grammar) (I : Info) (hcl : Closed G I) (nt : NodeTypes)
    (n v : Nat) (ks : List Child) (h : KidsN G n v ks) (ty : TypeRef) (names : List String)
    (hnames : ∀ c ∈ ks, ∀ f ∈ c.fields, f ∈ names) (zs : List VT)
    (hz : zs.filter (fun k => !k.extra) = ks.map kidVT) :
    (∀ k ∈ zs, k.extra = false → ∀ f ∈ k.fields, ∃ fs ∈ (toEntry I v ty names).fields, fs.1 = f ∧ Reach nt fs.2.types k.ty) ∧
    (∀ fs ∈ (toEntry I v ty names).fields, QuantOK fs.2 (countField zs fs.1)) := by
  obtain ⟨b1, b2⟩ := derive_entry_fields_partial G I hcl nt n v ks h ty names hnames
  have hself : (ks.map kidVT).filter (fun k => !k.extra) = ks.map kidVT := by
    apply List.filter_eq_self.2
    intro k hk
    simp only [List.mem_map] at hk
    obtain ⟨c, _, rfl⟩ := hk
    rfl
  constructor
  · intro k hk hex f hf
    have : k ∈ zs.filter (fun k => !k.extra) := List.mem_filter.2 ⟨hk, by simp [hex]⟩
    rw [hz] at this
    exact b1 k this f hf
  · intro fs hfs
    have := b2 fs hfs
    rw [countField_filter] at this ⊢
    rw [hz, ← hself]
    exact this

/-- `collapse_preserves_admitted`: the supertype-collapsing step of `generate_node_types`
(`process_supertypes`: when a `types` list contains a supertype, that supertype's subtypes are removed
from it, pair by pair) does not change the set of node types the list admits through `subtypes` —
for every file whose entries contain the pairs and in which no supertype is its own subtype. -/
theorem collapse_preserves_admitted (nt : NodeTypes) (subMap : List (TypeRef × List TypeRef))
    (h : ∀ pair ∈ subMap, (∃ e ∈ nt, e.ty = pair.1 ∧ e.subtypes = some pair.2) ∧ pair.1 ∉ pair.2)
    (types : List TypeRef) (t : TypeRef) : Reach nt (collapse subMap types) t ↔ Reach nt types t :=
  collapse_reach_iff subMap h types t

/-- non-vacuity, and the shape of seeded change C16-r5: `_expression` with the named subtype `string`; the
list also holds the ANONYMOUS literal "string".  Collapsing keeps the literal; a collapse that compares
kinds only (ignoring `named`) would drop it, and the anonymous node would no longer be admitted. -/
def supNT : NodeTypes :=
  [ { ty := ⟨"_expression", true⟩, fields := [], children := none, subtypes := some [⟨"string", true⟩, ⟨"ident", true⟩] } ]
example : collapse [(⟨"_expression", true⟩, [⟨"string", true⟩, ⟨"ident", true⟩])]
    [⟨"_expression", true⟩, ⟨"string", true⟩, ⟨"string", false⟩] = [⟨"_expression", true⟩, ⟨"string", false⟩] := by decide
example : allowed supNT ⟨true, false, [⟨"_expression", true⟩, ⟨"string", false⟩]⟩ ⟨"string", false⟩ = true := by decide
example : allowed supNT ⟨true, false, [⟨"_expression", true⟩, ⟨"string", false⟩]⟩ ⟨"string", true⟩ = true := by decide
example : allowed supNT ⟨true, false, [⟨"_expression", true⟩]⟩ ⟨"string", false⟩ = false := by decide

/-! ## names -/

/-- `name_roundtrip`: if the two decidable checks hold for a symbol table then every public symbol
of a symbol with a node kind is found again from its own name and namedness. -/
theorem name_roundtrip (T : SymTab) (h1 : namesRoundTrip T = true) (h2 : pubConsistent T = true) :
    ∀ s ∈ T.syms, s.hasKind = true →
      ∃ p, T.syms[s.pub]? = some p ∧ p.name = s.name ∧ p.named = s.named ∧
        symbolForName T p.name p.named = s.pub := by
  intro s hs hk
  simp only [namesRoundTrip, List.all_eq_true, Bool.or_eq_true, Bool.not_eq_true', beq_iff_eq] at h1
  simp only [pubConsistent, List.all_eq_true, Bool.or_eq_true, Bool.not_eq_true'] at h2
  have a := h1 s hs
  have b := h2 s hs
  rw [hk] at a b
  simp only [Bool.true_eq_false, false_or] at a b
  cases hp : T.syms[s.pub]? with
  | none => simp [hp] at b
  | some p =>
    simp only [hp, Bool.and_eq_true, beq_iff_eq] at b
    exact ⟨p, rfl, b.1.1.1, b.1.1.2, by rw [b.1.1.1, b.1.1.2]; exact a⟩

/-- `field_roundtrip`: with pairwise distinct field names, id → name → id is the identity on
`1 … field_count` (and name → id → name on the listed names). -/
theorem field_roundtrip (T : SymTab) (hnd : T.fieldNames.Nodup) :
    ∀ id, 1 ≤ id → id ≤ T.fieldNames.length →
      ∃ n, fieldNameForId T id = some n ∧ fieldIdForName T n = id := by
  intro id h1 h2
  have hlt : id - 1 < T.fieldNames.length := by omega
  refine ⟨T.fieldNames[id - 1], ?_, ?_⟩
  · simp [fieldNameForId, show id ≠ 0 by omega, hlt]
  · have := List.Nodup.idxOf_getElem hnd (id - 1) hlt
    simp only [fieldIdForName, this, hlt, if_true]
    omega

/-! ## non-vacuity -/

/-- a two-state table: state 0 large (symbols 0 and 2 set), state 1 small with two groups -/
def exLang : Lang :=
  { symbolCount := 4, tokenCount := 3, stateCount := 2, largeStateCount := 1,
    parseTable := #[5, 0, 7, 0], smallTable := #[2, 9, 2, 1, 3, 4, 1, 0], smallMap := #[0],
    actionCounts := #[0, 0, 0, 0, 0, 1, 0, 1, 0, 1] }

example : tableWF exLang = true := by decide
example : lookaheadList exLang 0 = [(0, 5), (2, 7)] := by decide
example : lookaheadList exLang 1 = [(1, 9), (3, 9), (0, 4)] := by decide
example : lookup exLang 1 3 = 9 ∧ lookup exLang 1 2 = 0 := by decide
/-- a layout the predicate rejects: a group with zero symbols -/
example : tableWF { exLang with smallTable := #[1, 9, 0] } = false := by decide

def exNT : NodeTypes :=
  [ { ty := ⟨"_expr", true⟩, fields := [], children := none, subtypes := some [⟨"num", true⟩, ⟨"neg", true⟩] },
    { ty := ⟨"neg", true⟩, fields := [("arg", ⟨true, false, [⟨"_expr", true⟩]⟩)], children := none, subtypes := none },
    { ty := ⟨"num", true⟩, fields := [], children := none, subtypes := none },
    { ty := ⟨"-", false⟩, fields := [], children := none, subtypes := none } ]

def exTree : VT :=
  .node ⟨"neg", true⟩ false [] [.node ⟨"-", false⟩ false [] [], .node ⟨"num", true⟩ false ["arg"] []]

example : ntWF exNT = true := by decide
example : checkConforms exNT exTree = true := by decide
example : Conforms exNT exTree := (conforms_iff exNT exTree).1 (by decide)
/-- a required field left empty does not conform -/
example : ¬ Conforms exNT (.node ⟨"neg", true⟩ false [] [.node ⟨"-", false⟩ false [] []]) :=
  fun h => by
    have := (conforms_iff exNT _).2 h
    revert this; decide

def exTab : SymTab :=
  { syms := [⟨[101, 110, 100], false, false, false, 0⟩, ⟨[120], true, true, false, 1⟩, ⟨[121], true, false, false, 2⟩],
    fieldNames := [[97], [98]] }
example : namesRoundTrip exTab = true ∧ pubConsistent exTab = true := by decide
example : exTab.fieldNames.Nodup := by decide

/-- WITNESS (see notes/C16.md, finding `error-prefix`): `ts_language_symbol_for_name` compares only
`length` bytes with "ERROR", so a named kind that is a prefix of "ERROR" maps to the error symbol
and does not round-trip. -/
example : namesRoundTrip { syms := [⟨[101, 110, 100], false, false, false, 0⟩, ⟨[69], true, true, false, 1⟩], fieldNames := [] } = false := by
  decide
/-- with the exact comparison of fixes/C16-error-prefix.diff the same table round-trips -/
example : namesRoundTrip { exactError := true, syms := [⟨[101, 110, 100], false, false, false, 0⟩, ⟨[69], true, true, false, 1⟩], fieldNames := [] } = true := by
  decide

/-- WITNESS (finding `inlined-alias-unlisted`, zoo `fx_aliased_inlined_rules`, input `a;`): the real
node-types.json (reduced to the entries involved) types `variable_name` as a child of `statement`
but has no top-level entry for it, so the real tree `(statement (variable_name) ";")` does not conform. -/
def witNT : NodeTypes :=
  [ { ty := ⟨"statement", true⟩, fields := [],
      children := some ⟨true, false, [⟨"member_expression", true⟩, ⟨"variable_name", true⟩]⟩, subtypes := none },
    { ty := ⟨";", false⟩, fields := [], children := none, subtypes := none } ]
example : ¬ Conforms witNT (.node ⟨"statement", true⟩ false [] [.node ⟨"variable_name", true⟩ false [] [], .node ⟨";", false⟩ false [] []]) :=
  fun h => by
    have := (conforms_iff witNT _).2 h
    revert this; decide

/-- WITNESS (finding `aliased-inline-multistep`, corpus grammar c16_msinline, input `rec < a > ;`): the
real node-types.json declares field `entry` of `msrec_stmt` as one non-multiple `thing`; the real tree
has three `thing` children under `entry` (every step of the inlined production got the alias and the
field). -/
def msWitNT : NodeTypes :=
  [ { ty := ⟨"msrec_stmt", true⟩, fields := [("entry", ⟨true, false, [⟨"thing", true⟩]⟩)], children := none, subtypes := none },
    { ty := ⟨"thing", true⟩, fields := [], children := some ⟨false, true, [⟨"word", true⟩]⟩, subtypes := none },
    { ty := ⟨"rec", false⟩, fields := [], children := none, subtypes := none },
    { ty := ⟨";", false⟩, fields := [], children := none, subtypes := none } ]
example : ¬ Conforms msWitNT (.node ⟨"msrec_stmt", true⟩ false []
    [.node ⟨"rec", false⟩ false [] [], .node ⟨"thing", true⟩ false ["entry"] [], .node ⟨"thing", true⟩ false ["entry"] [],
     .node ⟨"thing", true⟩ false ["entry"] [], .node ⟨";", false⟩ false [] []]) :=
  fun h => by
    have := (conforms_iff msWitNT _).2 h
    revert this; decide

/-- `kinds_listed_sound`: "each node type is listed" on the level of the LANGUAGE, not of sampled
trees — when the decidable `kindsListed` holds for a symbol table and the entries of a node-types file
(evaluated on every real pair), every symbol a node can carry (visible; inlined rule names excepted,
they never become nodes) has an entry of its (kind, named), and every supertype symbol a supertype entry. -/
theorem kinds_listed_sound (T : SymTab) (inl : List (List Nat)) (entries : List (List Nat × Bool × Bool))
    (h : kindsListed T inl entries = true) (s : SymInfo) (hs : s ∈ T.syms) :
    (s.visible = true → s.name ∉ inl → ∃ e ∈ entries, e.1 = s.name ∧ e.2.1 = s.named ∧ e.2.2 = false) ∧
    (s.supertype = true → s.visible = false → ∃ e ∈ entries, e.1 = s.name ∧ e.2.2 = true) := by
  unfold kindsListed at h
  have h1 := (List.all_eq_true.1 h) s hs
  simp only [Bool.and_eq_true, Bool.or_eq_true, Bool.not_eq_true', Bool.and_eq_false_imp, List.any_eq_true,
    beq_iff_eq, Bool.not_eq_false'] at h1
  constructor
  · intro hv hn
    rcases h1.1 with h2 | ⟨e, he, h3⟩
    · have := h2 hv
      simp only [Bool.not_eq_false', List.contains_iff_mem] at this
      exact absurd this hn
    · exact ⟨e, he, h3.1.1, h3.1.2, h3.2⟩
  · intro hsup hv
    rcases h1.2 with h2 | ⟨e, he, h3⟩
    · have := h2 hsup
      rw [hv] at this; cases this
    · exact ⟨e, he, h3.1, h3.2⟩

/-- `symbol_type_flags`: what the port of `ts_language_symbol_type` answers to the bindings' three
questions, in terms of the table's metadata (compared with the real function for every id: `corr_symtype`) -/
theorem symbol_type_flags (s : SymInfo) :
    kindFlags s = (s.visible, s.named && s.visible, s.supertype && !s.visible) := by
  cases s with
  | mk n v nm sup p => cases v <;> cases nm <;> cases sup <;> rfl

/-! ### non-vacuity of `derive_sound_partial` -/
namespace Derive

def tIdent : TypeRef := ⟨"ident", true⟩
def tColon : TypeRef := ⟨":", false⟩
def tNum : TypeRef := ⟨"num", true⟩

/-- `pair: key:ident ':' value:_vals` with the hidden rule `_vals: num | num num` -/
def exG : Grammar :=
  { syms := [.token (some tIdent), .token (some tColon), .rule 1 none, .token (some tNum)],
    prods := [ [ [⟨0, some "key", none⟩, ⟨1, none, none⟩, ⟨2, some "value", none⟩] ],
               [ [⟨3, none, none⟩], [⟨3, none, none⟩, ⟨3, none, none⟩] ] ] }

def exI : Info :=
  { children := fun v => if v = 0 then [tIdent, tColon, tNum] else [tNum],
    fieldTypes := fun v f => if v = 0 then (if f = "key" then [tIdent] else if f = "value" then [tNum] else []) else [],
    childMax := fun _ => 2,
    childMin := fun v => if v = 0 then 3 else 1,
    fieldMax := fun v f => if v = 0 then (if f = "key" then 1 else if f = "value" then 2 else 0) else 0,
    fieldMin := fun v f => if v = 0 then (if f = "key" then 1 else if f = "value" then 1 else 0) else 0,
    plainTypes := fun v => if v = 0 then [] else [tNum],
    plainMax := fun v => if v = 0 then 0 else 2,
    plainMin := fun v => if v = 0 then 0 else 1 }

/-- a derivation through the hidden rule: the two `num` children inherit the field `value` -/
example : KidsN exG 2 0 [⟨tIdent, ["key"]⟩, ⟨tColon, []⟩, ⟨tNum, ["value"]⟩, ⟨tNum, ["value"]⟩] := by
  refine ⟨_, List.mem_singleton.2 rfl, ?_⟩
  refine ⟨[⟨tIdent, ["key"]⟩], _, rfl, rfl, ?_⟩
  refine ⟨[⟨tColon, []⟩], _, rfl, rfl, ?_⟩
  refine ⟨[⟨tNum, ["value"]⟩, ⟨tNum, ["value"]⟩], [], rfl, ?_, rfl⟩
  refine ⟨[⟨tNum, []⟩, ⟨tNum, []⟩], ?_, rfl⟩
  refine ⟨[⟨3, none, none⟩, ⟨3, none, none⟩], by simp [Grammar.prodsOf, exG], ?_⟩
  exact ⟨[⟨tNum, []⟩], [⟨tNum, []⟩], rfl, rfl, [⟨tNum, []⟩], [], rfl, rfl, rfl⟩

/-- the information of the example is closed, so `derive_sound_partial` applies to it -/
example : Closed exG exI := by
  intro v p hp
  have hv : v = 0 ∨ v = 1 ∨ 2 ≤ v := by omega
  rcases hv with rfl | rfl | hv
  · simp only [Grammar.prodsOf, exG, List.getD_cons_zero, List.mem_singleton] at hp
    subst hp
    refine ⟨?_, ?_, ?_, ?_, ?_, ?_, ?_⟩
    · intro s hs
      simp only [List.mem_cons, List.not_mem_nil, or_false] at hs
      rcases hs with rfl | rfl | rfl
      · simp [StepClosed, visTy, Grammar.kind, exG, exI, tIdent]
      · simp [StepClosed, visTy, Grammar.kind, exG, exI, tColon, tIdent, tNum]
      · simp [StepClosed, visTy, Grammar.kind, exG, exI, tNum]
    · simp [exI]
    · intro f
      have e1 : ("key" = f) = (f = "key") := propext ⟨Eq.symm, Eq.symm⟩
      have e2 : ("value" = f) = (f = "value") := propext ⟨Eq.symm, Eq.symm⟩
      by_cases h1 : f = "key" <;> by_cases h2 : f = "value" <;>
        simp_all [exI, sumBy, stepFieldMax, visTy, Grammar.kind, exG]
    · simp [exI, sumBy, stepChildMin, visTy, Grammar.kind, exG]
    · intro f
      have e1 : ("key" = f) = (f = "key") := propext ⟨Eq.symm, Eq.symm⟩
      have e2 : ("value" = f) = (f = "value") := propext ⟨Eq.symm, Eq.symm⟩
      by_cases h1 : f = "key" <;> by_cases h2 : f = "value" <;>
        simp_all [exI, sumBy, stepFieldMin, visTy, Grammar.kind, exG]
    · simp [exI, sumBy, stepPlainMax, visTy, Grammar.kind, exG, tColon]
    · simp [exI]
  · simp only [Grammar.prodsOf, exG] at hp
    simp at hp
    rcases hp with rfl | rfl <;>
      (refine ⟨?_, ?_, ?_, ?_, ?_, ?_, ?_⟩ <;>
        simp_all [StepClosed, visTy, Grammar.kind, exG, exI, sumBy, stepFieldMax, stepFieldMin, stepChildMin, stepChildMax,
          stepPlainMax, stepPlainMin, tNum])
  · have : exG.prodsOf v = [] := by
      obtain ⟨w, rfl⟩ : ∃ w, v = w + 2 := ⟨v - 2, by omega⟩
      simp [Grammar.prodsOf, exG]
    rw [this] at hp; cases hp


/-! ### non-vacuity: executable check, least fixed point, inlining -/

def exIF : InfoF :=
  [ { children := [tIdent, tColon, tNum], childMax := 2, childMin := 3,
      fields := [("key", [tIdent], 1, 1), ("value", [tNum], 2, 1)], plain := [], plainMax := 0, plainMin := 0 },
    { children := [tNum], childMax := 2, childMin := 1, fields := [], plain := [tNum], plainMax := 2, plainMin := 1 } ]

example : closedB exG exIF = true := by decide
/-- dropping the `multiple` flag of `value` is detected, with the production -/
example : firstOpen exG [ { exIF.var 0 with fields := [("key", [tIdent], 1, 1), ("value", [tNum], 1, 1)] }, exIF.var 1 ] = some (0, 0) := by decide
/-- dropping the kind `num` from field `value` is detected -/
example : closedB exG [ { exIF.var 0 with fields := [("key", [tIdent], 1, 1), ("value", [], 2, 1)] }, exIF.var 1 ] = false := by decide

example : Closed exG (lfp exG) := iterS_closed exG _ (Nat.le_refl _)

/-- the finding `C16-inlined-field-override`:
`fo_stmt: 'fo' outer:_fo_body ';'`, `_fo_body: inner:ident '=' ident`, `_fo_body` inlined -/
def foG : Grammar :=
  { syms := [.token (some ⟨"fo", false⟩), .token (some ⟨";", false⟩), .token (some tIdent), .token (some ⟨"=", false⟩),
             .rule 0 (some ⟨"fo_stmt", true⟩), .rule 1 none],
    prods := [ [ [⟨0, none, none⟩, ⟨5, some "outer", none⟩, ⟨1, none, none⟩] ],
               [ [⟨2, some "inner", none⟩, ⟨3, none, none⟩, ⟨2, none, none⟩] ] ] }

/-- the substitution: the three inserted steps carry `outer`; `inner` is gone -/
example : ((inlineG foG [1]).prodsOf 0).map (fun p => p.map (fun s => (s.sym, s.field))) =
    [[(0, none), (2, some "outer"), (3, some "outer"), (2, some "outer"), (1, none)]] := by decide

def foKids : List Child :=
  [⟨⟨"fo", false⟩, []⟩, ⟨tIdent, ["outer"]⟩, ⟨⟨"=", false⟩, ["outer"]⟩, ⟨tIdent, ["outer"]⟩, ⟨⟨";", false⟩, []⟩]

/-- `foWit`: the children of `fo a = b ;` are derivable with the inlined rule spliced, and NO
information that calls field `inner` required (as the real node-types.json does) admits them. -/
theorem foWit : KidsNI foG [1] 1 0 foKids ∧ ∀ I : Info, 1 ≤ I.fieldMin 0 "inner" → ¬ Admits I 0 foKids := by
  constructor
  · refine ⟨_, List.mem_singleton.2 rfl, ?_⟩
    refine ⟨[⟨⟨"fo", false⟩, []⟩], _, rfl, rfl, ?_⟩
    refine ⟨[⟨tIdent, ["outer"]⟩, ⟨⟨"=", false⟩, ["outer"]⟩, ⟨tIdent, ["outer"]⟩], _, rfl, ?_, ?_⟩
    · refine ⟨_, List.mem_singleton.2 rfl, ?_⟩
      exact ⟨[⟨tIdent, ["outer"]⟩], _, rfl, rfl, [⟨⟨"=", false⟩, ["outer"]⟩], _, rfl, rfl, [⟨tIdent, ["outer"]⟩], [], rfl, rfl, rfl⟩
    · exact ⟨[⟨⟨";", false⟩, []⟩], [], rfl, rfl, rfl⟩
  · intro I hI hA
    have := hA.2.2.2.2.1 "inner"
    have e : cnt "inner" foKids = 0 := by decide
    omega

end Derive

end TsVerif.C16
