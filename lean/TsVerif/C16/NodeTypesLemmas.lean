import TsVerif.C16.NodeTypes
/-!
# C16 — lemmas relating the node-types checker to declarative conformance
-/
namespace TsVerif.C16

theorem mem_subsOf {nt : NodeTypes} {s t : TypeRef} :
    t ∈ subsOf nt s ↔ ∃ e ∈ nt, e.ty = s ∧ ∃ subs, e.subtypes = some subs ∧ t ∈ subs := by
  simp only [subsOf, List.mem_flatMap]
  constructor
  · rintro ⟨e, he, ht⟩
    by_cases h : e.ty = s
    · simp only [h, if_true] at ht
      cases hs : e.subtypes with
      | none => simp [hs] at ht
      | some subs => simp [hs] at ht; exact ⟨e, he, h, subs, hs, ht⟩
    · simp [h] at ht
  · rintro ⟨e, he, h, subs, hs, ht⟩
    exact ⟨e, he, by simp [h, hs, ht]⟩

theorem closed_iff {nt : NodeTypes} {S : List TypeRef} :
    closed nt S = true ↔ ∀ s ∈ S, ∀ t ∈ subsOf nt s, t ∈ S := by
  simp only [closed, List.all_eq_true, List.mem_flatMap, decide_eq_true_eq]
  constructor
  · intro h s hs t ht; exact h t ⟨s, hs, ht⟩
  · rintro h t ⟨s, hs, ht⟩; exact h s hs t ht

theorem closure_spec (nt : NodeTypes) (roots : List TypeRef) : ∀ (fuel : Nat) (S0 S : List TypeRef),
    closure nt fuel S0 = some S → (∀ t ∈ roots, t ∈ S0) → (∀ t ∈ S0, Reach nt roots t) →
    ∀ t, t ∈ S ↔ Reach nt roots t := by
  have final : ∀ S : List TypeRef, closed nt S = true → (∀ t ∈ roots, t ∈ S) → (∀ t ∈ S, Reach nt roots t) →
      ∀ t, t ∈ S ↔ Reach nt roots t := by
    intro S hc hr hs t
    constructor
    · exact hs t
    · intro h
      induction h with
      | base hm => exact hr _ hm
      | sub _ he hty hsub ht ih =>
        exact (closed_iff.1 hc) _ ih _ (mem_subsOf.2 ⟨_, he, hty, _, hsub, ht⟩)
  intro fuel
  induction fuel with
  | zero =>
    intro S0 S h hr hs
    simp only [closure] at h
    split at h
    · rename_i hc; cases h; exact final _ hc hr hs
    · cases h
  | succ f ih =>
    intro S0 S h hr hs
    simp only [closure] at h
    split at h
    · rename_i hc; cases h; exact final _ hc hr hs
    · apply ih _ _ h
      · intro t ht; simp only [stepSet, List.mem_append]; exact Or.inl (hr t ht)
      · intro t ht
        simp only [stepSet, List.mem_append, List.mem_filter, List.mem_flatMap] at ht
        rcases ht with ht | ⟨⟨s, hsS, hts⟩, _⟩
        · exact hs t ht
        · obtain ⟨e, he, hty, subs, hsub, htm⟩ := mem_subsOf.1 hts
          exact Reach.sub (hs s hsS) he hty hsub htm

/-! ### the saturation always converges within `closureFuel` rounds -/

/-- members of the typeUniverse not yet collected -/
def missing (nt : NodeTypes) (S : List TypeRef) : Nat := ((typeUniverse nt).filter (fun t => !decide (t ∈ S))).length

theorem filter_length_lt {α : Type} (U : List α) (p q : α → Bool) (hpq : ∀ x, q x = true → p x = true)
    (x : α) (hx : x ∈ U) (hp : p x = true) (hq : q x = false) :
    (U.filter q).length < (U.filter p).length := by
  induction U with
  | nil => cases hx
  | cons y ys ih =>
    have hle : ∀ zs : List α, (zs.filter q).length ≤ (zs.filter p).length := by
      intro zs
      induction zs with
      | nil => simp
      | cons z zs ihz =>
        simp only [List.filter]
        cases hqz : q z with
        | false => cases p z <;> simp <;> omega
        | true => simp [hpq z hqz]; omega
    rcases List.mem_cons.1 hx with rfl | hx'
    · simp only [List.filter, hp, hq, List.length_cons]
      have := hle ys; omega
    · have := ih hx'
      simp only [List.filter]
      cases hqy : q y with
      | false => cases p y <;> simp <;> omega
      | true => simp [hpq y hqy]; omega

theorem subsOf_universe {nt : NodeTypes} {s t : TypeRef} (h : t ∈ subsOf nt s) : t ∈ typeUniverse nt := by
  obtain ⟨e, he, _, subs, hs, ht⟩ := mem_subsOf.1 h
  simp only [typeUniverse, List.mem_flatMap]
  exact ⟨e, he, by simp [hs, ht]⟩

theorem missing_step_lt {nt : NodeTypes} {S : List TypeRef} (h : closed nt S = false) :
    missing nt (stepSet nt S) < missing nt S := by
  have hne : ¬ (∀ s ∈ S, ∀ t ∈ subsOf nt s, t ∈ S) := by
    intro hall
    have := closed_iff.2 hall
    rw [h] at this; cases this
  -- a new element
  have : ∃ s ∈ S, ∃ t ∈ subsOf nt s, t ∉ S :=
    Classical.byContradiction fun hcon =>
      hne (fun s hs t ht => Classical.byContradiction fun hts => hcon ⟨s, hs, t, ht, hts⟩)
  obtain ⟨s, hs, t, ht, hts⟩ := this
  unfold missing
  apply filter_length_lt (typeUniverse nt) _ _ ?_ t (subsOf_universe ht)
  · simp [hts]
  · have hmem : t ∈ stepSet nt S := by
      simp only [stepSet, List.mem_append, List.mem_filter, List.mem_flatMap]
      exact Or.inr ⟨⟨s, hs, ht⟩, by simp [hts]⟩
    simp [hmem]
  · intro x hx
    simp only [Bool.not_eq_eq_eq_not, Bool.not_true, decide_eq_false_iff_not] at hx ⊢
    intro hxS
    exact hx (by simp only [stepSet, List.mem_append]; exact Or.inl hxS)

theorem closure_converges (nt : NodeTypes) : ∀ (fuel : Nat) (S : List TypeRef), missing nt S ≤ fuel →
    (closure nt fuel S).isSome = true := by
  intro fuel
  induction fuel with
  | zero =>
    intro S hm
    simp only [closure]
    cases hc : closed nt S with
    | true => simp
    | false => have := missing_step_lt hc; omega
  | succ f ih =>
    intro S hm
    simp only [closure]
    cases hc : closed nt S with
    | true => simp
    | false =>
      simp only [Bool.false_eq_true, if_false]
      exact ih _ (by have := missing_step_lt hc; omega)

theorem closure_isSome (nt : NodeTypes) (roots : List TypeRef) :
    (closure nt (closureFuel nt) roots).isSome = true := by
  apply closure_converges
  unfold missing closureFuel
  exact List.length_filter_le _ _

/-- `ntWF` holds for every file -/
theorem ntWF_always (nt : NodeTypes) : ntWF nt = true := by
  simp only [ntWF, List.all_eq_true, Bool.and_eq_true]
  intro e _
  refine ⟨fun fs _ => closure_isSome nt _, ?_⟩
  cases e.children with
  | none => rfl
  | some spec => exact closure_isSome nt _

theorem allowed_iff {nt : NodeTypes} {spec : ChildSpec} {t : TypeRef}
    (h : (closure nt (closureFuel nt) spec.types).isSome = true) :
    allowed nt spec t = true ↔ Reach nt spec.types t := by
  unfold allowed
  cases hc : closure nt (closureFuel nt) spec.types with
  | none => simp [hc] at h
  | some S =>
    have := closure_spec nt spec.types _ _ _ hc (fun _ h => h) (fun _ h => Reach.base h) t
    simp [this]

theorem quantOK_iff (spec : ChildSpec) (n : Nat) : quantOK spec n = true ↔ QuantOK spec n := by
  unfold quantOK QuantOK
  cases spec.required <;> cases spec.multiple <;> simp

theorem ntWF_fields {nt : NodeTypes} (h : ntWF nt = true) {e : Entry} (he : e ∈ nt) {fs : String × ChildSpec}
    (hf : fs ∈ e.fields) : (closure nt (closureFuel nt) fs.2.types).isSome = true := by
  simp only [ntWF, List.all_eq_true, Bool.and_eq_true] at h
  exact (h e he).1 fs hf

theorem ntWF_children {nt : NodeTypes} (h : ntWF nt = true) {e : Entry} (he : e ∈ nt) {spec : ChildSpec}
    (hc : e.children = some spec) : (closure nt (closureFuel nt) spec.types).isSome = true := by
  simp only [ntWF, List.all_eq_true, Bool.and_eq_true] at h
  have := (h e he).2
  simpa [hc] using this

theorem childOK_iff {nt : NodeTypes} (h : ntWF nt = true) {e : Entry} (he : e ∈ nt) (k : VT) :
    childOK nt e k = true ↔ ChildOK nt e k := by
  unfold childOK ChildOK
  simp only [Bool.and_eq_true, List.all_eq_true, List.any_eq_true, decide_eq_true_eq, Bool.or_eq_true,
    Bool.not_eq_true', Bool.and_eq_false_imp]
  constructor
  · rintro ⟨h1, h2⟩
    refine ⟨?_, ?_⟩
    · intro f hf
      obtain ⟨fs, hfs, hfe, ha⟩ := h1 f hf
      exact ⟨fs, hfs, hfe, (allowed_iff (ntWF_fields h he hfs)).1 ha⟩
    · intro hempty hnamed
      rcases h2 with h2 | h2
      · have := h2 (by simp [hempty])
        simp [hnamed] at this
      · cases hc : e.children with
        | none => simp [hc] at h2
        | some spec =>
          simp only [hc] at h2
          exact ⟨spec, rfl, (allowed_iff (ntWF_children h he hc)).1 h2⟩
  · rintro ⟨h1, h2⟩
    refine ⟨?_, ?_⟩
    · intro f hf
      obtain ⟨fs, hfs, hfe, hr⟩ := h1 f hf
      exact ⟨fs, hfs, hfe, (allowed_iff (ntWF_fields h he hfs)).2 hr⟩
    · by_cases hem : k.fields.isEmpty = true
      · by_cases hn : k.ty.named = true
        · right
          obtain ⟨spec, hc, hr⟩ := h2 (by simpa using hem) hn
          simp only [hc]
          exact (allowed_iff (ntWF_children h he hc)).2 hr
        · left; intro _; simpa using hn
      · left; intro h'; exact absurd h' hem

theorem entryOK_iff {nt : NodeTypes} (h : ntWF nt = true) {e : Entry} (he : e ∈ nt) (kids : List VT) :
    entryOK nt e kids = true ↔ EntryOK nt e kids := by
  unfold entryOK EntryOK
  simp only [Bool.and_eq_true, List.all_eq_true, Bool.or_eq_true, Option.isNone_iff_eq_none, quantOK_iff]
  constructor
  · rintro ⟨⟨⟨h1, h2⟩, h3⟩, h4⟩
    refine ⟨h1, ?_, h3, ?_⟩
    · intro k hk hex
      rcases h2 k hk with h2 | h2
      · simp [hex] at h2
      · exact (childOK_iff h he k).1 h2
    · intro spec hc
      simp only [hc] at h4
      exact (quantOK_iff _ _).1 h4
  · rintro ⟨h1, h2, h3, h4⟩
    refine ⟨⟨⟨h1, ?_⟩, h3⟩, ?_⟩
    · intro k hk
      by_cases hex : k.extra = true
      · exact Or.inl hex
      · exact Or.inr ((childOK_iff h he k).2 (h2 k hk (by simpa using hex)))
    · cases hc : e.children with
      | none => rfl
      | some spec => exact (quantOK_iff _ _).2 (h4 spec hc)

theorem nodeOK_iff {nt : NodeTypes} (h : ntWF nt = true) (ty : TypeRef) (kids : List VT) :
    nodeOK nt ty kids = true ↔ NodeOK nt ty kids := by
  unfold nodeOK NodeOK
  simp only [List.any_eq_true, Bool.and_eq_true, decide_eq_true_eq]
  constructor
  · rintro ⟨e, he, hty, hok⟩; exact ⟨e, he, hty, (entryOK_iff h he kids).1 hok⟩
  · rintro ⟨e, he, hty, hok⟩; exact ⟨e, he, hty, (entryOK_iff h he kids).2 hok⟩

end TsVerif.C16
