import TsVerif.C16.Props
#print axioms TsVerif.C16.lookahead_enumerates
#print axioms TsVerif.C16.lookahead_values
#print axioms TsVerif.C16.lookahead_perm_nonzero
#print axioms TsVerif.C16.lookaheadList_run
#print axioms TsVerif.C16.lookahead_done_stays
#print axioms TsVerif.C16.conforms_iff
#print axioms TsVerif.C16.allowed_iff_reach
#print axioms TsVerif.C16.closure_always_converges
#print axioms TsVerif.C16.derive_sound_partial
#print axioms TsVerif.C16.derive_entry_fields_partial
#print axioms TsVerif.C16.collapse_preserves_admitted
#print axioms TsVerif.C16.name_roundtrip
#print axioms TsVerif.C16.field_roundtrip
