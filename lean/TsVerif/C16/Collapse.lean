import TsVerif.C16.NodeTypesLemmas
/-!
# C16 — the supertype-collapsing step of `generate_node_types` (`process_supertypes`)

For every (supertype, subtypes) pair, in order: when a `types` list contains the supertype, its subtypes
are removed from the list.  The admitted set — what `Reach` (membership through `subtypes`) accepts — is
unchanged, provided the pairs are entries of the file and no supertype is its own subtype.
-/
namespace TsVerif.C16

/-- one pair of `process_supertypes` -/
def collapseStage (pair : TypeRef × List TypeRef) (types : List TypeRef) : List TypeRef :=
  if pair.1 ∈ types then types.filter (fun t => !decide (t ∈ pair.2)) else types

/-- `process_supertypes` -/
def collapse (subMap : List (TypeRef × List TypeRef)) (types : List TypeRef) : List TypeRef :=
  subMap.foldl (fun acc pair => collapseStage pair acc) types

theorem reach_of_roots {nt : NodeTypes} {roots roots' : List TypeRef}
    (h : ∀ r ∈ roots, Reach nt roots' r) {t : TypeRef} (ht : Reach nt roots t) : Reach nt roots' t := by
  induction ht with
  | base hm => exact h _ hm
  | sub _ he hty hsub htm ih => exact Reach.sub ih he hty hsub htm

theorem collapseStage_subset (pair : TypeRef × List TypeRef) (types : List TypeRef) :
    ∀ t ∈ collapseStage pair types, t ∈ types := by
  intro t ht
  unfold collapseStage at ht
  split at ht
  · exact (List.mem_filter.1 ht).1
  · exact ht

theorem collapseStage_reach {nt : NodeTypes} (pair : TypeRef × List TypeRef)
    (hentry : ∃ e ∈ nt, e.ty = pair.1 ∧ e.subtypes = some pair.2) (hself : pair.1 ∉ pair.2)
    (types : List TypeRef) : ∀ t ∈ types, Reach nt (collapseStage pair types) t := by
  intro t ht
  unfold collapseStage
  split
  · rename_i hsup
    by_cases hts : t ∈ pair.2
    · obtain ⟨e, he, hty, hsub⟩ := hentry
      have hsupIn : pair.1 ∈ types.filter (fun t => !decide (t ∈ pair.2)) :=
        List.mem_filter.2 ⟨hsup, by simp [hself]⟩
      exact Reach.sub (Reach.base hsupIn) he hty hsub hts
    · exact Reach.base (List.mem_filter.2 ⟨ht, by simp [hts]⟩)
  · exact Reach.base ht

/-- collapsing does not change what the list admits -/
theorem collapse_reach_iff {nt : NodeTypes} : ∀ (subMap : List (TypeRef × List TypeRef)),
    (∀ pair ∈ subMap, (∃ e ∈ nt, e.ty = pair.1 ∧ e.subtypes = some pair.2) ∧ pair.1 ∉ pair.2) →
    ∀ (types : List TypeRef) (t : TypeRef), Reach nt (collapse subMap types) t ↔ Reach nt types t := by
  intro subMap
  induction subMap with
  | nil => intro _ types t; rfl
  | cons pair rest ih =>
    intro h types t
    have hp := h pair List.mem_cons_self
    have hrest := ih (fun q hq => h q (List.mem_cons_of_mem _ hq)) (collapseStage pair types) t
    simp only [collapse, List.foldl_cons] at hrest ⊢
    rw [hrest]
    constructor
    · exact reach_of_roots (fun r hr => Reach.base (collapseStage_subset pair types r hr))
    · exact reach_of_roots (collapseStage_reach pair hp.1 hp.2 types)

end TsVerif.C16
