import TsVerif.C16.DeriveLemmas
/-!
# C16 — inlined rules as substitution (`prepare_grammar/process_inlines.rs`)

`process_inlines` replaces, in every production, a step whose symbol is an inlined variable by each of
that variable's productions; every inserted step takes the removed step's alias (if it has one) and
the removed step's field (if it has one) — `override`.  `expandProd` is that substitution for one
production (all inlined references of the production at once), `inlineG` for a grammar.

`KidsNI` is the derivation semantics of the ORIGINAL grammar in which a reference to an inlined
variable contributes the children of one of the variable's productions, spliced in place, with the
reference's alias / field stamped on every step of that production (no node for the variable itself).
`inline_round`: the derivations of `inlineG G inl` are exactly those.

One round replaces the references present in `G`; references to inlined variables INSIDE the inserted
productions remain (and are then hidden-rule references).  The driver applies rounds until no
reference is left — each round is an instance of the theorem.
-/
namespace TsVerif.C16.Derive
open TsVerif.C16

/-- the inserted step: alias and field of the removed step win when present -/
def override (o s : Step) : Step :=
  { sym := s.sym,
    field := match o.field with | some f => some f | none => s.field,
    alias := match o.alias with | some a => some a | none => s.alias }

/-- the inlined variable a step refers to, if any -/
def inlRef (G : Grammar) (inl : List Nat) (s : Step) : Option Nat :=
  match G.kind s.sym with
  | .rule h _ => if inl.contains h then some h else none
  | .token _ => none

/-- all productions obtained by replacing every reference to an inlined variable -/
def expandProd (G : Grammar) (inl : List Nat) : List Step → List (List Step)
  | [] => [[]]
  | s :: rest =>
    match inlRef G inl s with
    | some h => (G.prodsOf h).flatMap (fun q => (expandProd G inl rest).map (fun t => q.map (override s) ++ t))
    | none => (expandProd G inl rest).map (fun t => s :: t)

def inlineG (G : Grammar) (inl : List Nat) : Grammar :=
  { syms := G.syms, prods := G.prods.map (fun ps => ps.flatMap (expandProd G inl)) }

/-- does any production still refer to an inlined variable (from a variable that is itself not inlined)? -/
def hasInlRef (G : Grammar) (inl : List Nat) : Bool :=
  (List.range G.prods.length).any (fun v => !inl.contains v && (G.prodsOf v).any (fun p => p.any (fun s => (inlRef G inl s).isSome)))

/-- rounds of inlining until no reference is left (or the fuel / the size budget is exhausted) -/
def inlineRounds (inl : List Nat) (budget : Nat) : Nat → Grammar → Option Grammar
  | 0, G => if hasInlRef G inl then none else some G
  | n + 1, G =>
    if hasInlRef G inl then
      let G' := inlineG G inl
      if (G'.prods.foldl (fun a ps => a + ps.length) 0) > budget then none else inlineRounds inl budget n G'
    else some G

/-! ## the splice semantics of the original grammar -/

def StepKidsI (G : Grammar) (inl : List Nat) (K : Nat → List Child → Prop) (s : Step) (k : List Child) : Prop :=
  match inlRef G inl s with
  | some h => ∃ q ∈ G.prodsOf h, StepsKids G K (q.map (override s)) k
  | none => StepKids G K s k

def StepsKidsI (G : Grammar) (inl : List Nat) (K : Nat → List Child → Prop) : List Step → List Child → Prop
  | [], ks => ks = []
  | s :: rest, ks => ∃ k1 k2, ks = k1 ++ k2 ∧ StepKidsI G inl K s k1 ∧ StepsKidsI G inl K rest k2

/-- children sequences of `v` in the original grammar, inlined references spliced -/
def KidsNI (G : Grammar) (inl : List Nat) : Nat → Nat → List Child → Prop
  | 0, _, _ => False
  | n + 1, v, ks => ∃ p ∈ G.prodsOf v, StepsKidsI G inl (KidsNI G inl n) p ks

/-! ## lemmas -/

theorem stepsKids_append (G : Grammar) (K : Nat → List Child → Prop) (a b : List Step) (ks : List Child) :
    StepsKids G K (a ++ b) ks ↔ ∃ k1 k2, ks = k1 ++ k2 ∧ StepsKids G K a k1 ∧ StepsKids G K b k2 := by
  induction a generalizing ks with
  | nil =>
    simp only [List.nil_append, StepsKids]
    constructor
    · intro h; exact ⟨[], ks, rfl, rfl, h⟩
    · rintro ⟨k1, k2, rfl, rfl, h⟩; exact h
  | cons s rest ih =>
    simp only [List.cons_append, StepsKids]
    constructor
    · rintro ⟨k1, k2, rfl, h1, h2⟩
      obtain ⟨k3, k4, rfl, h3, h4⟩ := (ih k2).1 h2
      exact ⟨k1 ++ k3, k4, by simp, ⟨k1, k3, rfl, h1, h3⟩, h4⟩
    · rintro ⟨k1, k2, rfl, ⟨k3, k4, rfl, h3, h4⟩, h2⟩
      exact ⟨k3, k4 ++ k2, by simp, h3, (ih _).2 ⟨k4, k2, rfl, h4, h2⟩⟩

theorem inlineG_kind (G : Grammar) (inl : List Nat) (s : Nat) : (inlineG G inl).kind s = G.kind s := rfl

theorem inlineG_visTy (G : Grammar) (inl : List Nat) (s : Step) : visTy (inlineG G inl) s = visTy G s := rfl

theorem inlineG_stepKids (G : Grammar) (inl : List Nat) (K : Nat → List Child → Prop) (s : Step) (k : List Child) :
    StepKids (inlineG G inl) K s k ↔ StepKids G K s k := Iff.rfl

theorem inlineG_stepsKids (G : Grammar) (inl : List Nat) (K : Nat → List Child → Prop) (p : List Step) (ks : List Child) :
    StepsKids (inlineG G inl) K p ks ↔ StepsKids G K p ks := by
  induction p generalizing ks with
  | nil => exact Iff.rfl
  | cons s rest ih =>
    simp only [StepsKids]
    constructor
    · rintro ⟨k1, k2, e, h1, h2⟩; exact ⟨k1, k2, e, h1, (ih k2).1 h2⟩
    · rintro ⟨k1, k2, e, h1, h2⟩; exact ⟨k1, k2, e, h1, (ih k2).2 h2⟩

theorem inlineG_prodsOf (G : Grammar) (inl : List Nat) (v : Nat) :
    (inlineG G inl).prodsOf v = (G.prodsOf v).flatMap (expandProd G inl) := by
  unfold Grammar.prodsOf inlineG
  simp only [List.getD_eq_getElem?_getD, List.getElem?_map]
  cases G.prods[v]? <;> simp

/-- the substitution, production by production: a children sequence is derived by SOME expansion of
`p` iff it is derived by `p` with the inlined references spliced -/
theorem expandProd_sound (G : Grammar) (inl : List Nat) (K : Nat → List Child → Prop) (p : List Step) (ks : List Child) :
    (∃ p' ∈ expandProd G inl p, StepsKids G K p' ks) ↔ StepsKidsI G inl K p ks := by
  induction p generalizing ks with
  | nil =>
    simp only [expandProd, List.mem_singleton, StepsKidsI]
    constructor
    · rintro ⟨p', rfl, h⟩; exact h
    · intro h; exact ⟨[], rfl, h⟩
  | cons s rest ih =>
    simp only [StepsKidsI]
    unfold expandProd StepKidsI
    cases hr : inlRef G inl s with
    | none =>
      simp only [List.mem_map]
      constructor
      · rintro ⟨p', ⟨t, ht, rfl⟩, h⟩
        obtain ⟨k1, k2, e, h1, h2⟩ := h
        exact ⟨k1, k2, e, h1, (ih k2).1 ⟨t, ht, h2⟩⟩
      · rintro ⟨k1, k2, e, h1, h2⟩
        obtain ⟨t, ht, h3⟩ := (ih k2).2 h2
        exact ⟨s :: t, ⟨t, ht, rfl⟩, ⟨k1, k2, e, h1, h3⟩⟩
    | some h =>
      simp only [List.mem_flatMap, List.mem_map]
      constructor
      · rintro ⟨p', ⟨q, hq, t, ht, rfl⟩, hd⟩
        obtain ⟨k1, k2, e, h1, h2⟩ := (stepsKids_append G K _ _ ks).1 hd
        exact ⟨k1, k2, e, ⟨q, hq, h1⟩, (ih k2).1 ⟨t, ht, h2⟩⟩
      · rintro ⟨k1, k2, e, ⟨q, hq, h1⟩, h2⟩
        obtain ⟨t, ht, h3⟩ := (ih k2).2 h2
        exact ⟨q.map (override s) ++ t, ⟨q, hq, t, ht, rfl⟩, (stepsKids_append G K _ _ ks).2 ⟨k1, k2, e, h1, h3⟩⟩

theorem kidsN_inlineG (G : Grammar) (inl : List Nat) : ∀ n v ks,
    KidsN (inlineG G inl) n v ks ↔ KidsNI G inl n v ks := by
  intro n
  induction n with
  | zero => intro v ks; exact Iff.rfl
  | succ n ih =>
    intro v ks
    have hK : KidsN (inlineG G inl) n = KidsNI G inl n := funext fun v => funext fun ks => propext (ih v ks)
    simp only [KidsN, KidsNI, inlineG_prodsOf, List.mem_flatMap, hK]
    constructor
    · rintro ⟨p', ⟨p, hp, hp'⟩, h⟩
      exact ⟨p, hp, (expandProd_sound G inl _ p ks).1 ⟨p', hp', (inlineG_stepsKids G inl _ p' ks).1 h⟩⟩
    · rintro ⟨p, hp, h⟩
      obtain ⟨p', hp', h'⟩ := (expandProd_sound G inl _ p ks).2 h
      exact ⟨p', ⟨p, hp, hp'⟩, (inlineG_stepsKids G inl _ p' ks).2 h'⟩

end TsVerif.C16.Derive
