import TsVerif.C16.Table
import TsVerif.C03.Driver
/-!
# C16 — the look-ahead sets and the parser that reads the same table

"the look-ahead iterator of a parse state lists every token the parser can accept in that state":
the parser here is the code-shaped LR driver of C03 (`TsVerif.C03.step`, a port of the error-free
single-version path of `ts_parser__advance`; owned and tied to parser.c by the C03 check), which
reads the decoded table `C03.Table` (`ts_language_table_entry` per cell).  `actsAgree L tbl` is the
decidable statement that the decoded cells and the raw layout `L` (what the iterator walks) are the
same table: evaluated on every real dump.
-/
namespace TsVerif.C16
open TsVerif

/-- the (state, look-ahead symbol) the driver consults in a configuration: the next token, the end
symbol 0 when the input is exhausted or the state is the end of a non-terminal extra -/
def consulted (tbl : C03.Table) (c : C03.Conf) : Nat × Nat :=
  let s := C03.topState c.stack
  (s, if tbl.lexEnd s then 0 else c.toks.headD 0)

/-- `ts_language_has_actions`-style: the parser has something to do on `a` in `s` -/
def driverActs (tbl : C03.Table) (s a : Nat) : Prop := C03.effective (tbl.actions s a) ≠ []

/-- every non-empty decoded cell is a non-zero cell of the raw table (of a real state and symbol) -/
def actsAgree (L : Lang) (tbl : C03.Table) : Bool :=
  (List.range tbl.acts.size).all (fun s => (tbl.acts.getD s []).all (fun e =>
    e.2.isEmpty || (decide (s < L.stateCount) && decide (e.1 < L.symbolCount) && lookup L s e.1 != 0)))

/-- conversely: every TERMINAL with a non-zero raw cell has a non-empty action list -/
def cellsHaveActions (L : Lang) (tbl : C03.Table) : Bool :=
  (List.range L.stateCount).all (fun s => (List.range L.tokenCount).all (fun a =>
    lookup L s a == 0 || !(tbl.actions s a).isEmpty))

theorem lookup_mem {α β : Type} [BEq α] [LawfulBEq α] (a : α) (b : β) : ∀ (l : List (α × β)),
    l.lookup a = some b → (a, b) ∈ l
  | [], h => by cases h
  | (x, y) :: rest, h => by
    simp only [List.lookup] at h
    by_cases hx : (a == x) = true
    · simp only [hx] at h
      have : x = a := (LawfulBEq.eq_of_beq hx).symm
      cases h
      rw [this]
      exact List.mem_cons_self ..
    · simp only [hx] at h
      exact List.mem_cons_of_mem _ (lookup_mem a b rest h)

theorem actsAgree_sound (L : Lang) (tbl : C03.Table) (h : actsAgree L tbl = true) (s a : Nat)
    (hne : tbl.actions s a ≠ []) : s < L.stateCount ∧ a < L.symbolCount ∧ lookup L s a ≠ 0 := by
  unfold C03.Table.actions at hne
  cases hl : (tbl.acts.getD s []).lookup a with
  | none => rw [hl] at hne; exact absurd rfl hne
  | some as =>
    rw [hl] at hne
    simp only [Option.getD_some] at hne
    have hmem := lookup_mem a as _ hl
    have hs : s < tbl.acts.size := by
      by_cases hs : s < tbl.acts.size
      · exact hs
      · rw [Array.getD_eq_getD_getElem?, Array.getElem?_eq_none (Nat.le_of_not_lt hs)] at hmem
        cases hmem
    unfold actsAgree at h
    have h1 := (List.all_eq_true.1 h) s (List.mem_range.2 hs)
    have h2 := (List.all_eq_true.1 h1) (a, as) hmem
    simp only [Bool.or_eq_true, Bool.and_eq_true, decide_eq_true_eq, bne_iff_ne, ne_eq, List.isEmpty_iff] at h2
    rcases h2 with h2 | h2
    · exact absurd h2 hne
    · exact ⟨h2.1.1, h2.1.2, h2.2⟩

/-- the driver continues (or accepts) only where it has an effective action -/
theorem step_inl_acts (tbl : C03.Table) (c c' : C03.Conf) (h : C03.step tbl c = .inl c') :
    driverActs tbl (consulted tbl c).1 (consulted tbl c).2 := by
  intro h0
  unfold consulted at h0
  unfold C03.step at h
  by_cases hl : tbl.lexEnd (C03.topState c.stack) = true
  · simp only [hl, if_true] at h0 h
    rw [h0] at h
    cases h
  · simp only [hl] at h0 h
    simp only [Bool.false_eq_true, if_false] at h0 h
    rw [h0] at h
    cases h

theorem step_accept_acts (tbl : C03.Table) (c : C03.Conf) (t : C03.PTree) (h : C03.step tbl c = .inr (.accepted t)) :
    driverActs tbl (consulted tbl c).1 (consulted tbl c).2 := by
  intro h0
  unfold consulted at h0
  unfold C03.step at h
  by_cases hl : tbl.lexEnd (C03.topState c.stack) = true
  · simp only [hl, if_true] at h0 h
    rw [h0] at h
    cases h
  · simp only [hl] at h0 h
    simp only [Bool.false_eq_true, if_false] at h0 h
    rw [h0] at h
    cases h

end TsVerif.C16
