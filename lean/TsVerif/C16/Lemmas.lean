import TsVerif.C16.Table
/-!
# C16 — lemmas for the look-ahead encode/decode theorem (core tactics only)
-/
namespace TsVerif.C16

/-- The observable behaviour of a client loop `while (next(it)) use(it.symbol, it.table_value)`,
as a relation (so that no fuel is involved in the statements). -/
inductive Run (L : Lang) : Iter → List (Nat × Nat) → Prop
  | stop {it : Iter} : (next L it).1 = false → Run L it []
  | step {it : Iter} {xs : List (Nat × Nat)} : (next L it).1 = true → Run L (next L it).2 xs →
      Run L it (((next L it).2.symbol, (next L it).2.tableValue) :: xs)

theorem collect_of_run {L : Lang} {it : Iter} {xs : List (Nat × Nat)} (h : Run L it xs) :
    ∀ fuel, xs.length < fuel → collect L fuel it = xs := by
  induction h with
  | @stop it h =>
    intro fuel hf
    cases fuel with
    | zero => simp at hf
    | succ f =>
      have : next L it = (false, (next L it).2) := by rw [← h]
      simp only [collect]
      rw [this]
  | @step it xs h _ ih =>
    intro fuel hf
    cases fuel with
    | zero => simp at hf
    | succ f =>
      have : next L it = (true, (next L it).2) := by rw [← h]
      simp only [collect]
      rw [this]
      simp only [List.length_cons, Nat.add_lt_add_iff_right] at hf
      simp [ih f hf]

theorem run_functional {L : Lang} {it : Iter} {xs ys : List (Nat × Nat)} (h : Run L it xs) (h' : Run L it ys) :
    xs = ys := by
  induction h generalizing ys with
  | stop h => cases h' with
    | stop _ => rfl
    | step h2 _ => simp [h] at h2
  | step h _ ih => cases h' with
    | stop h2 => simp [h] at h2
    | step _ r => rw [ih r]

/-! ### `finish` -/

@[simp] theorem finish_fst (L : Lang) (it : Iter) : (finish L it).1 = true := by
  unfold finish; split <;> rfl
@[simp] theorem finish_data (L : Lang) (it : Iter) : (finish L it).2.data = it.data := by
  unfold finish; split <;> rfl
@[simp] theorem finish_groupEnd (L : Lang) (it : Iter) : (finish L it).2.groupEnd = it.groupEnd := by
  unfold finish; split <;> rfl
@[simp] theorem finish_groupCount (L : Lang) (it : Iter) : (finish L it).2.groupCount = it.groupCount := by
  unfold finish; split <;> rfl
@[simp] theorem finish_tableValue (L : Lang) (it : Iter) : (finish L it).2.tableValue = it.tableValue := by
  unfold finish; split <;> rfl
@[simp] theorem finish_symbol (L : Lang) (it : Iter) : (finish L it).2.symbol = it.symbol := by
  unfold finish; split <;> rfl
@[simp] theorem finish_isSmall (L : Lang) (it : Iter) : (finish L it).2.isSmall = it.isSmall := by
  unfold finish; split <;> rfl
@[simp] theorem finish_phase (L : Lang) (it : Iter) : (finish L it).2.phase = .positioned := by
  unfold finish; split <;> rfl

/-! ### small states -/

/-- within one group: the remaining `k` symbols are produced with the group's value, then the
iterator stands at the group's end. -/
theorem run_group (L : Lang) (rest : List (Nat × Nat)) (ge gc : Nat) :
    ∀ (k : Nat) (it : Iter), it.isSmall = true → it.phase = .positioned → it.data + 1 + k = ge →
      it.groupEnd = ge → it.groupCount = gc →
      (∀ it' : Iter, it'.isSmall = true → it'.phase = .positioned → it'.data + 1 = ge →
          it'.groupEnd = ge → it'.groupCount = gc → Run L it' rest) →
      Run L it ((symsAt L k (it.data + 1)).map (fun s => (s, it.tableValue)) ++ rest) := by
  intro k
  induction k with
  | zero =>
    intro it hs hp hd hge hgc hk
    simpa [symsAt] using hk it hs hp (by omega) hge hgc
  | succ k ih =>
    intro it hs hp hd hge hgc hk
    have hne : it.data + 1 ≠ it.groupEnd := by omega
    have hn : next L it = (true, { it with data := it.data + 1, symbol := L.st (it.data + 1), phase := .positioned }) := by
      simp [next, hp, hs, hne]
    have h1 : (next L it).1 = true := by rw [hn]
    have := Run.step h1 (xs := (symsAt L k (it.data + 1 + 1)).map (fun s => (s, it.tableValue)) ++ rest) (by
      rw [hn]
      exact ih _ hs rfl (by simp; omega) hge hgc hk)
    rw [hn] at this
    simpa [symsAt] using this

theorem run_groups (L : Lang) :
    ∀ (g p : Nat) (it : Iter), it.isSmall = true → it.phase ≠ .done → it.data + 1 = p →
      it.groupEnd = p → it.groupCount = g → groupsWF L g p = true →
      Run L it (flatten (decode L g p)) := by
  intro g
  induction g with
  | zero =>
    intro p it hs hp hd hge hgc _
    apply Run.stop
    simp [next, hp, hs, hd, hge, hgc]
  | succ g ih =>
    intro p it hs hp hd hge hgc hwf
    have e1 : L.st (it.data + 1 + 1) = L.st (p + 1) := by rw [hd]
    have e2 : L.st (it.data + 1) = L.st p := by rw [hd]
    have e3 : L.st (it.data + 1 + 2) = L.st (p + 2) := by rw [hd]
    simp only [groupsWF, Bool.and_eq_true, decide_eq_true_eq] at hwf
    obtain ⟨⟨⟨hc, _⟩, _⟩, hrest⟩ := hwf
    have hgc0 : it.groupCount ≠ 0 := by omega
    have hdg : it.data + 1 = it.groupEnd := by omega
    have hn : next L it = finish L { it with data := it.data + 1 + 2, groupCount := it.groupCount - 1, tableValue := L.st (it.data + 1), groupEnd := it.data + 1 + 2 + L.st (it.data + 1 + 1), symbol := L.st (it.data + 1 + 2) } := by
      simp [next, hp, hs, hdg, hgc0]
    have h1 : (next L it).1 = true := by rw [hn]; simp
    obtain ⟨c, hc'⟩ : ∃ c, L.st (p + 1) = c + 1 := ⟨L.st (p + 1) - 1, by omega⟩
    have hrun : Run L (next L it).2 ((symsAt L c (p + 2 + 1)).map (fun s => (s, L.st p)) ++
        flatten (decode L g (p + 2 + L.st (p + 1)))) := by
      have := run_group L (flatten (decode L g (p + 2 + L.st (p + 1)))) (p + 2 + L.st (p + 1)) g c (next L it).2
        (by rw [hn]; simp [hs]) (by rw [hn]; simp) (by rw [hn]; simp; omega) (by rw [hn]; simp; omega)
        (by rw [hn]; simp; omega)
        (fun it' hs' hp' hd' hge' hgc' => ih _ it' hs' (by simp [hp']) hd' hge' hgc' hrest)
      have hd2 : (next L it).2.data + 1 = p + 2 + 1 := by rw [hn]; simp; omega
      have htv : (next L it).2.tableValue = L.st p := by rw [hn]; simp [e2]
      rw [hd2, htv] at this
      exact this
    have := Run.step h1 hrun
    have hsym : (next L it).2.symbol = L.st (p + 2) := by rw [hn]; simp [e3]
    have htv : (next L it).2.tableValue = L.st p := by rw [hn]; simp [e2]
    rw [hsym, htv] at this
    simpa [decode, flatten, hc', symsAt] using this

theorem flatten_length_endPos (L : Lang) : ∀ (g p : Nat),
    (flatten (decode L g p)).length + 2 * g + p = endPos L g p := by
  intro g
  induction g with
  | zero => intro p; simp [decode, flatten, endPos]
  | succ g ih =>
    intro p
    have hlen : ∀ n q, (symsAt L n q).length = n := by
      intro n; induction n with
      | zero => intro q; rfl
      | succ n ihn => intro q; simp [symsAt, ihn]
    have := ih (p + 2 + L.st (p + 1))
    simp only [decode, flatten, endPos, List.length_append, List.length_map, hlen]
    omega

/-! ### `ts_language_lookup` on small states = first match in the decoded groups -/

def firstMatch (sym : Nat) : List (Nat × List Nat) → Nat
  | [] => 0
  | (v, syms) :: rest => if sym ∈ syms then v else firstMatch sym rest

theorem scanSyms_iff (L : Lang) (sym : Nat) : ∀ (n pos : Nat),
    scanSyms L sym n pos = true ↔ sym ∈ symsAt L n pos := by
  intro n
  induction n with
  | zero => intro pos; simp [scanSyms, symsAt]
  | succ n ih =>
    intro pos
    simp only [scanSyms, symsAt, List.mem_cons]
    by_cases h : L.st pos = sym
    · simp [h]
    · have h' : ¬ sym = L.st pos := fun e => h e.symm
      simp [h, h', ih]

theorem lookupSmall_decode (L : Lang) (sym : Nat) : ∀ (g pos : Nat),
    lookupSmall L sym g pos = firstMatch sym (decode L g pos) := by
  intro g
  induction g with
  | zero => intro pos; rfl
  | succ g ih =>
    intro pos
    simp only [lookupSmall, decode, firstMatch]
    by_cases h : scanSyms L sym (L.st (pos + 1)) (pos + 2) = true
    · have := (scanSyms_iff L sym _ _).1 h
      simp [h, this]
    · have hm : ¬ sym ∈ symsAt L (L.st (pos + 1)) (pos + 2) := fun m => h ((scanSyms_iff L sym _ _).2 m)
      simp [h, hm, ih]

/-- group values are non-zero and group symbols are below `symbol_count` -/
theorem groupsWF_decode (L : Lang) : ∀ (g p : Nat), groupsWF L g p = true →
    ∀ v syms, (v, syms) ∈ decode L g p → v ≠ 0 ∧ ∀ s ∈ syms, s < L.symbolCount := by
  intro g
  induction g with
  | zero => intro p _ v syms hm; simp [decode] at hm
  | succ g ih =>
    intro p hwf v syms hm
    simp only [groupsWF, Bool.and_eq_true, decide_eq_true_eq, List.all_eq_true] at hwf
    obtain ⟨⟨⟨_, hv⟩, hs⟩, hrest⟩ := hwf
    simp only [decode, List.mem_cons, Prod.mk.injEq] at hm
    rcases hm with ⟨rfl, rfl⟩ | hm
    · exact ⟨hv, hs⟩
    · exact ih _ hrest v syms hm

theorem mem_flatten {D : List (Nat × List Nat)} {s v : Nat} :
    (s, v) ∈ flatten D ↔ ∃ syms, (v, syms) ∈ D ∧ s ∈ syms := by
  induction D with
  | nil => simp [flatten]
  | cons hd tl ih =>
    obtain ⟨v0, syms0⟩ := hd
    simp only [flatten, List.mem_append, List.mem_map, Prod.mk.injEq, List.mem_cons, ih]
    constructor
    · intro h
      rcases h with ⟨a, ha, h1, h2⟩ | ⟨syms, hm, hs⟩
      · subst h1; subst h2
        exact ⟨syms0, Or.inl ⟨rfl, rfl⟩, ha⟩
      · exact ⟨syms, Or.inr hm, hs⟩
    · intro h
      rcases h with ⟨syms, h | hm, hs⟩
      · obtain ⟨h1, h2⟩ := h
        subst h1; subst h2
        exact Or.inl ⟨s, hs, rfl, rfl⟩
      · exact Or.inr ⟨syms, hm, hs⟩

theorem firstMatch_of_mem {D : List (Nat × List Nat)} (hnd : ((flatten D).map (·.1)).Nodup) {s v : Nat}
    (hm : (s, v) ∈ flatten D) : firstMatch s D = v := by
  induction D with
  | nil => simp [flatten] at hm
  | cons hd tl ih =>
    obtain ⟨v0, syms0⟩ := hd
    simp only [flatten, List.map_append, List.map_map] at hnd
    have hnd' := List.nodup_append.1 hnd
    simp only [flatten, List.mem_append, List.mem_map, Prod.mk.injEq] at hm
    simp only [firstMatch]
    rcases hm with ⟨a, ha, rfl, rfl⟩ | hm
    · simp [ha]
    · have : ¬ s ∈ syms0 := by
        intro hs
        have h1 : s ∈ List.map ((fun x => x.1) ∘ fun s => (s, v0)) syms0 := by
          simp only [List.mem_map, Function.comp]; exact ⟨s, hs, rfl⟩
        have h2 : s ∈ List.map (fun x => x.1) (flatten tl) := List.mem_map.2 ⟨(s, v), hm, rfl⟩
        exact hnd'.2.2 s h1 s h2 rfl
      simp [this, ih hnd'.2.1 hm]

theorem firstMatch_ne_zero {D : List (Nat × List Nat)} {s : Nat} (h : firstMatch s D ≠ 0) :
    (s, firstMatch s D) ∈ flatten D := by
  induction D with
  | nil => simp [firstMatch] at h
  | cons hd tl ih =>
    obtain ⟨v0, syms0⟩ := hd
    simp only [firstMatch] at h ⊢
    by_cases hs : s ∈ syms0
    · simp only [hs, if_true, flatten, List.mem_append, List.mem_map]
      exact Or.inl ⟨s, hs, rfl⟩
    · simp only [hs, if_false] at h ⊢
      simp only [flatten, List.mem_append]
      exact Or.inr (ih h)

/-! ### large states -/

/-- the non-zero columns of a row among `start, …, start + k - 1` -/
def nzList (f : Nat → Nat) : (k start : Nat) → List Nat
  | 0, _ => []
  | k + 1, s => if f s ≠ 0 then s :: nzList f k (s + 1) else nzList f k (s + 1)

theorem mem_nzList (f : Nat → Nat) : ∀ (k s x : Nat), x ∈ nzList f k s ↔ s ≤ x ∧ x < s + k ∧ f x ≠ 0 := by
  intro k
  induction k with
  | zero => intro s x; simp [nzList]; omega
  | succ k ih =>
    intro s x
    simp only [nzList]
    split
    · rename_i h
      simp only [List.mem_cons, ih]
      constructor
      · rintro (rfl | ⟨h1, h2, h3⟩)
        · exact ⟨Nat.le_refl _, by omega, h⟩
        · exact ⟨by omega, by omega, h3⟩
      · rintro ⟨h1, h2, h3⟩
        by_cases hx : x = s
        · exact Or.inl hx
        · exact Or.inr ⟨by omega, by omega, h3⟩
    · rename_i h
      simp only [ih]
      constructor
      · rintro ⟨h1, h2, h3⟩; exact ⟨by omega, by omega, h3⟩
      · rintro ⟨h1, h2, h3⟩
        have : x ≠ s := by rintro rfl; exact h h3
        exact ⟨by omega, by omega, h3⟩

theorem nzList_nodup (f : Nat → Nat) : ∀ (k s : Nat), (nzList f k s).Nodup := by
  intro k
  induction k with
  | zero => intro s; simp [nzList]
  | succ k ih =>
    intro s
    simp only [nzList]
    split
    · refine List.nodup_cons.2 ⟨?_, ih _⟩
      intro hm
      have := (mem_nzList f k (s + 1) s).1 hm
      omega
    · exact ih _

theorem nzList_length (f : Nat → Nat) : ∀ (k s : Nat), (nzList f k s).length ≤ k := by
  intro k
  induction k with
  | zero => intro s; simp [nzList]
  | succ k ih =>
    intro s
    simp only [nzList]
    split
    · simp only [List.length_cons]; have := ih (s + 1); omega
    · have := ih (s + 1); omega

theorem scanRow_eq (L : Lang) (row sym : Nat) : scanRow L row sym =
    if sym < L.symbolCount then (if L.pt (row + sym) != 0 then sym else scanRow L row (sym + 1)) else sym := by
  unfold scanRow
  by_cases h : sym < L.symbolCount
  · obtain ⟨k, hk⟩ : ∃ k, L.symbolCount - sym = k + 1 := ⟨L.symbolCount - sym - 1, by omega⟩
    have hk' : L.symbolCount - (sym + 1) = k := by omega
    simp [h, hk, hk', scanRowAux]
  · have : L.symbolCount - sym = 0 := by omega
    simp [h, this, scanRowAux]

/-- `scanRow` finds the head of `nzList` -/
theorem nzList_scan (L : Lang) (row : Nat) : ∀ (k s : Nat), s + k = L.symbolCount →
    (scanRow L row s ≥ L.symbolCount ∧ nzList (fun j => L.pt (row + j)) k s = []) ∨
    (scanRow L row s < L.symbolCount ∧ s ≤ scanRow L row s ∧ L.pt (row + scanRow L row s) ≠ 0 ∧
      ∃ k', k' < k ∧ scanRow L row s + 1 + k' = L.symbolCount ∧
        nzList (fun j => L.pt (row + j)) k s =
          scanRow L row s :: nzList (fun j => L.pt (row + j)) k' (scanRow L row s + 1)) := by
  intro k
  induction k with
  | zero =>
    intro s h
    left
    rw [scanRow_eq]
    have : ¬ s < L.symbolCount := by omega
    simp [this, nzList]
    omega
  | succ k ih =>
    intro s h
    have hs : s < L.symbolCount := by omega
    by_cases hz : L.pt (row + s) = 0
    · have e : scanRow L row s = scanRow L row (s + 1) := by
        rw [scanRow_eq]; simp [hs, hz]
      rw [e]
      simp only [nzList, hz, ne_eq, not_true_eq_false, if_false]
      rcases ih (s + 1) (by omega) with h1 | ⟨h1, h2, h3, k', hk', hb, he⟩
      · exact Or.inl h1
      · exact Or.inr ⟨h1, by omega, h3, k', by omega, hb, he⟩
    · have e : scanRow L row s = s := by
        rw [scanRow_eq]; simp [hs, hz]
      rw [e]
      right
      refine ⟨hs, Nat.le_refl _, hz, k, by omega, by omega, ?_⟩
      simp [nzList, hz]

/-- the symbol the large-state scan starts from -/
def startOf (it : Iter) : Nat := if it.phase = .fresh then 0 else it.symbol + 1

theorem run_large (L : Lang) (row : Nat) : ∀ (k : Nat) (it : Iter), it.isSmall = false → it.phase ≠ .done →
    it.data = row → startOf it + k = L.symbolCount →
    Run L it ((nzList (fun j => L.pt (row + j)) k (startOf it)).map (fun s => (s, L.pt (row + s)))) := by
  intro k
  induction k using Nat.strongRecOn with
  | _ k ih =>
    intro it hs hp hd hk
    have hn : next L it = (if scanRow L row (startOf it) ≥ L.symbolCount then (false, { it with phase := .done })
        else finish L { it with symbol := scanRow L row (startOf it), tableValue := L.pt (row + scanRow L row (startOf it)) }) := by
      simp [next, hp, hs, hd, startOf]
    rcases nzList_scan L row k (startOf it) hk with ⟨h1, h2⟩ | ⟨h1, _, _, k', hk', hb, he⟩
    · rw [h2]
      apply Run.stop
      rw [hn]; simp [h1]
    · have hlt : ¬ scanRow L row (startOf it) ≥ L.symbolCount := by omega
      rw [if_neg hlt] at hn
      have hfst : (next L it).1 = true := by rw [hn]; simp
      have hsym : (next L it).2.symbol = scanRow L row (startOf it) := by rw [hn]; simp
      have htv : (next L it).2.tableValue = L.pt (row + scanRow L row (startOf it)) := by rw [hn]; simp
      have hph : (next L it).2.phase = .positioned := by rw [hn]; simp
      have hstart : startOf (next L it).2 = scanRow L row (startOf it) + 1 := by
        show (if (next L it).2.phase = .fresh then 0 else (next L it).2.symbol + 1) = _
        rw [hph, hsym]; simp
      have hrun := ih k' hk' (next L it).2 (by rw [hn]; simp [hs]) (by rw [hn]; simp) (by rw [hn]; simp [hd])
        (by rw [hstart]; exact hb)
      rw [hstart] at hrun
      have := Run.step hfst hrun
      rw [hsym, htv] at this
      rw [he]
      simpa using this

theorem tableWF_small {L : Lang} (hwf : tableWF L = true) {s : Nat} (hs : s < L.stateCount)
    (hsmall : s ≥ L.largeStateCount) : smallStateWF L s = true := by
  simp only [tableWF, Bool.and_eq_true, decide_eq_true_eq, List.all_eq_true, List.mem_range] at hwf
  have := hwf.2 (s - L.largeStateCount) (by omega)
  have e : L.largeStateCount + (s - L.largeStateCount) = s := by omega
  rwa [e] at this

/-- Everything the property theorems need, for one state of a well-formed table. -/
theorem lookahead_core (L : Lang) (hwf : tableWF L = true) (s : Nat) (hs : s < L.stateCount) :
    ∃ xs, Run L (lookaheads L s) xs ∧ xs.length < fuelFor L ∧ (xs.map (·.1)).Nodup ∧
      ∀ sym v, (sym, v) ∈ xs ↔ (sym < L.symbolCount ∧ lookup L s sym = v ∧ v ≠ 0) := by
  by_cases hsmall : s ≥ L.largeStateCount
  · -- small state
    have hw := tableWF_small hwf hs hsmall
    simp only [smallStateWF, Bool.and_eq_true, decide_eq_true_eq] at hw
    obtain ⟨⟨⟨hidx, hg⟩, hend⟩, hnd⟩ := hw
    refine ⟨flatten (decode L (L.st (L.sm (s - L.largeStateCount))) (L.sm (s - L.largeStateCount) + 1)), ?_, ?_, hnd, ?_⟩
    · have : lookaheads L s = { data := L.sm (s - L.largeStateCount), groupEnd := L.sm (s - L.largeStateCount) + 1, tableValue := 0, groupCount := L.st (L.sm (s - L.largeStateCount)), isSmall := true, phase := .fresh, symbol := 65535, nextState := 0, actionCount := 0 } := by
        simp [lookaheads, hsmall]
      rw [this]
      exact run_groups L _ _ _ rfl (by simp) rfl rfl rfl hg
    · have := flatten_length_endPos L (L.st (L.sm (s - L.largeStateCount))) (L.sm (s - L.largeStateCount) + 1)
      simp only [fuelFor]
      omega
    · intro sym v
      have hl : lookup L s sym = firstMatch sym (decode L (L.st (L.sm (s - L.largeStateCount))) (L.sm (s - L.largeStateCount) + 1)) := by
        simp [lookup, hsmall, lookupSmall_decode]
      constructor
      · intro hm
        obtain ⟨syms, hD, hsy⟩ := mem_flatten.1 hm
        have := groupsWF_decode L _ _ hg v syms hD
        exact ⟨this.2 sym hsy, by rw [hl]; exact firstMatch_of_mem hnd hm, this.1⟩
      · rintro ⟨_, hv, hne⟩
        rw [hl] at hv
        have := firstMatch_ne_zero (D := decode L (L.st (L.sm (s - L.largeStateCount))) (L.sm (s - L.largeStateCount) + 1))
          (s := sym) (by rw [hv]; exact hne)
        rwa [hv] at this
  · -- large state
    have hlarge : s < L.largeStateCount := by omega
    have hit : lookaheads L s = { data := s * L.symbolCount, groupEnd := 0, tableValue := 0, groupCount := 0, isSmall := false, phase := .fresh, symbol := 65535, nextState := 0, actionCount := 0 } := by
      simp [lookaheads, hsmall]
    refine ⟨(nzList (fun j => L.pt (s * L.symbolCount + j)) L.symbolCount 0).map (fun x => (x, L.pt (s * L.symbolCount + x))), ?_, ?_, ?_, ?_⟩
    · have := run_large L (s * L.symbolCount) L.symbolCount (lookaheads L s) (by rw [hit]) (by rw [hit]; simp)
        (by rw [hit]) (by rw [hit]; simp [startOf])
      have h0 : startOf (lookaheads L s) = 0 := by rw [hit]; simp [startOf]
      rwa [h0] at this
    · have := nzList_length (fun j => L.pt (s * L.symbolCount + j)) L.symbolCount 0
      simp only [fuelFor, List.length_map]
      omega
    · simp only [List.map_map]
      have : ((fun x : Nat × Nat => x.1) ∘ fun x => (x, L.pt (s * L.symbolCount + x))) = id := by
        funext x; rfl
      rw [this, List.map_id]
      exact nzList_nodup _ _ _
    · intro sym v
      have hl : lookup L s sym = L.pt (s * L.symbolCount + sym) := by
        simp [lookup, hsmall]
      simp only [List.mem_map, Prod.mk.injEq, mem_nzList, hl]
      constructor
      · rintro ⟨a, ⟨_, h2, h3⟩, rfl, rfl⟩
        exact ⟨by omega, rfl, h3⟩
      · rintro ⟨h1, rfl, h3⟩
        exact ⟨sym, ⟨Nat.zero_le _, by omega, h3⟩, rfl, rfl⟩

end TsVerif.C16
