import TsVerif.C02.Props
/-!
# C02 — why 32 bits are enough (and needed) for the cached counts

The model computes `visible_child_count`, `named_child_count` and `visible_descendant_count` in `Nat`; the C struct
stores them in fixed-width fields.  `counts_fit`: in a summarized parser-shaped tree the three counts of EVERY node
are bounded by the number of raw nodes of its subtree (named ≤ visible children ≤ visible descendants < nodes), so a
field that holds every value below the number of nodes of the largest tree never wraps — 32 bits under the stated
assumption (`counts_fit_32`).  Nothing smaller is enough: the counts of a node are sums over its hidden children
(`summarize_counts`), a repetition of `n` items gives its top node `n` visible children, so a
16-bit field wraps for documents of 65 536 items (corpus/c02.txt has such documents).  The run-time side: `tsv-cunit_c02 widths` measures the real
fields, `TsVerif.C02.assumedBits` / `widthFails` judge them; corpus documents with ≥ 65 536 children are judged.
-/
namespace TsVerif.C02
open TsGen TsVerif

mutual
  theorem enum_le_desc (lang : Lang) : ∀ (t : Tree), (enumChildren lang t).length ≤ countDesc lang t
    | .mk d kids => by
      unfold enumChildren countDesc
      exact enumKids_le_desc lang d.productionId kids 0
  theorem enumKids_le_desc (lang : Lang) (pid : Nat) : ∀ (kids : List Tree) (si : Nat),
      (enumKids lang pid kids si).length ≤ countDescKids lang pid kids si
    | [], _ => by simp [enumKids, countDescKids]
    | c :: rest, si => by
      unfold enumKids countDescKids
      have h1 := enum_le_desc lang c
      have h2 := enumKids_le_desc lang pid rest (if c.data.extra then si else si + 1)
      show ((if (c.data.visible || (if c.data.extra then 0 else lang.aliasAt pid si) != 0) = true
              then [(c, if c.data.extra then 0 else lang.aliasAt pid si)] else enumChildren lang c) ++
            enumKids lang pid rest (if c.data.extra then si else si + 1)).length ≤
          (if (c.data.visible || (if c.data.extra then 0 else lang.aliasAt pid si) != 0) = true then 1 else 0) +
            countDesc lang c + countDescKids lang pid rest (if c.data.extra then si else si + 1)
      rw [List.length_append]
      by_cases hv : (c.data.visible || (if c.data.extra then 0 else lang.aliasAt pid si) != 0) = true
      · simp only [hv, if_true, List.length_cons, List.length_nil]; omega
      · have hv' := Bool.eq_false_iff.mpr hv
        simp only [hv', Bool.false_eq_true, if_false]; omega
end

mutual
  theorem desc_lt_size (lang : Lang) : ∀ (t : Tree), countDesc lang t < t.size
    | .mk d kids => by
      unfold countDesc Tree.size
      have := descKids_le_size lang d.productionId kids 0
      omega
  theorem descKids_le_size (lang : Lang) (pid : Nat) : ∀ (kids : List Tree) (si : Nat),
      countDescKids lang pid kids si ≤ Tree.sizeList kids
    | [], _ => by simp [countDescKids, Tree.sizeList]
    | c :: rest, si => by
      unfold countDescKids Tree.sizeList
      have h1 := desc_lt_size lang c
      have h2 := descKids_le_size lang pid rest (if c.data.extra then si else si + 1)
      show (if (c.data.visible || (if c.data.extra then 0 else lang.aliasAt pid si) != 0) = true then 1 else 0) +
            countDesc lang c + countDescKids lang pid rest (if c.data.extra then si else si + 1) ≤ c.size + Tree.sizeList rest
      by_cases hv : (c.data.visible || (if c.data.extra then 0 else lang.aliasAt pid si) != 0) = true
      · simp only [hv, if_true]; omega
      · have hv' := Bool.eq_false_iff.mpr hv
        simp only [hv', Bool.false_eq_true, if_false]; omega
end

/-- **counts_fit.**  For every language and every summarized parser-shaped tree: advertised named children ≤
advertised children ≤ advertised descendants < number of raw nodes of the subtree. -/
theorem counts_fit (lang : Lang) (t : Tree) (ps : Option Nat) (hs : Summarized lang t) (hsh : shapeOK ps t = true) :
    t.data.namedChildCount ≤ t.data.visibleChildCount ∧ t.data.visibleChildCount ≤ t.data.visibleDescendantCount ∧
    t.data.visibleDescendantCount < t.size := by
  obtain ⟨h1, h2, h3⟩ := summarize_counts lang t ps hs hsh
  rw [h1, h2, h3]
  exact ⟨List.length_filter_le _ _, enum_le_desc lang t, desc_lt_size lang t⟩

/-- With fewer than 2³² nodes no count reaches 2³²: 32-bit fields hold the model's `Nat` values exactly. -/
theorem counts_fit_32 (lang : Lang) (t : Tree) (ps : Option Nat) (hs : Summarized lang t) (hsh : shapeOK ps t = true)
    (hn : t.size ≤ 2 ^ 32) :
    t.data.namedChildCount < 2 ^ 32 ∧ t.data.visibleChildCount < 2 ^ 32 ∧ t.data.visibleDescendantCount < 2 ^ 32 := by
  obtain ⟨a, b, c⟩ := counts_fit lang t ps hs hsh
  omega

/-- Non-vacuity: `demoTree` (4 visible children, two of them through a hidden child; 6 raw nodes). -/
example : demoTree.data.namedChildCount = 4 ∧ demoTree.data.visibleChildCount = 4 ∧
    demoTree.data.visibleDescendantCount = 4 ∧ demoTree.size = 6 := by decide

end TsVerif.C02
