/-!
# C02 — port of the retry / error-skip loop of `ts_parser__lex` (lib/src/parser.c)

The `for (;;)` loop of `ts_parser__lex` with the two lexers (external scanner, generated
`ts_lex`) as ONE abstract parameter `attempt`: called with the lexer's current byte position and
the mode, it reports whether a token was found, where the lexer's `current_position` is left and
where `token_start_position` is.  `advance` is `lexer->advance(lexer, false)` (skip one
character).  Only byte positions matter for the progress argument.

```
for (;;) {
  found = external scan (reset to current_position on failure) ; if found break
  found = main lex fn                                            ; if found break
  if (!error_mode) { error_mode = true; reset(start_position); continue; }
  if (!skipped_error) { skipped_error = true; error_start = error_end = token_start_position; }
  if (current_position.bytes == error_end.bytes) {
    if (eof) { result_symbol = ts_builtin_sym_error; break; }
    advance(false);
  }
  error_end = current_position;
}
```
-/
namespace TsVerif.C02

structure LexEnv where
  /-- number of bytes of the document (the lexer is at EOF from here on) -/
  len : Nat
  /-- one round of lexing from `pos` in normal (`false`) / error (`true`) mode:
  (token found, current_position afterwards, token_start_position afterwards) -/
  attempt : Nat → Bool → Bool × Nat × Nat
  /-- position after skipping one character -/
  advance : Nat → Nat

/-- What the runtime guarantees about the lexer: it only moves forward, never beyond the end, and
skipping a character before EOF consumes at least one byte (`lookahead_size ≥ 1`). -/
structure LexEnvOK (E : LexEnv) : Prop where
  attempt_forward : ∀ p m, p ≤ (E.attempt p m).2.1
  attempt_bounded : ∀ p m, p ≤ E.len → (E.attempt p m).2.1 ≤ E.len
  start_between : ∀ p m, p ≤ (E.attempt p m).2.2 ∧ (E.attempt p m).2.2 ≤ (E.attempt p m).2.1
  advance_progress : ∀ p, p < E.len → p < E.advance p ∧ E.advance p ≤ E.len

structure LexState where
  errorMode : Bool
  skippedError : Bool
  errorStart : Nat := 0
  errorEnd : Nat := 0
  /-- `self->lexer.current_position.bytes` at the head of the loop -/
  cur : Nat
  deriving Repr, DecidableEq

inductive LexResult where
  /-- a token was recognised; the lexer stopped at `cur` -/
  | token (errorMode : Bool) (cur : Nat)
  /-- skipped to the end of the input: an ERROR token `[errorStart, errorEnd)` -/
  | errorAtEof (errorStart errorEnd : Nat)
  deriving Repr, DecidableEq

/-- One iteration of the loop. -/
def lexStep (E : LexEnv) (start : Nat) (s : LexState) : LexState ⊕ LexResult :=
  let r := E.attempt s.cur s.errorMode
  if r.1 then .inr (.token s.errorMode r.2.1)
  else if !s.errorMode then .inl { s with errorMode := true, cur := start }
  else
    let errorStart := if s.skippedError then s.errorStart else r.2.2
    let errorEnd := if s.skippedError then s.errorEnd else r.2.2
    if r.2.1 == errorEnd then
      if r.2.1 ≥ E.len then .inr (.errorAtEof errorStart errorEnd)
      else
        let c := E.advance r.2.1
        .inl { errorMode := true, skippedError := true, errorStart := errorStart, errorEnd := c, cur := c }
    else .inl { errorMode := true, skippedError := true, errorStart := errorStart, errorEnd := r.2.1, cur := r.2.1 }

/-- The loop with fuel. -/
def lexLoop (E : LexEnv) (start : Nat) : Nat → LexState → Option LexResult
  | 0, _ => none
  | fuel + 1, s =>
    match lexStep E start s with
    | .inr r => some r
    | .inl s' => lexLoop E start fuel s'

end TsVerif.C02
