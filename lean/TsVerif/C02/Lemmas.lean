import TsVerif.C02.Judge
/-!
# C02 — helper lemmas (algebra of `length_add`, the summarize loop field by field)
-/
namespace TsVerif.C02
open TsGen TsVerif

/-! ## `point_add` / `length_add` form a monoid -/

theorem point_add_assoc (a b c : TSPoint) : point_add (point_add a b) c = point_add a (point_add b c) := by
  unfold point_add point__new
  by_cases hb : b.row > 0 <;> by_cases hc : c.row > 0
  · have : b.row + c.row > 0 := by omega
    simp [hb, hc, this, Nat.add_assoc]
  · have h0 : c.row = 0 := by omega
    simp [hb, h0]
  · have h0 : b.row = 0 := by omega
    simp [hc, h0]
  · have h0 : b.row = 0 := by omega
    have h1 : c.row = 0 := by omega
    simp [h0, h1, Nat.add_assoc]

theorem length_add_assoc (a b c : Length) : length_add (length_add a b) c = length_add a (length_add b c) := by
  simp [length_add, point_add_assoc, Nat.add_assoc]

theorem length_add_bytes (a b : Length) : (length_add a b).bytes = a.bytes + b.bytes := by
  simp [length_add]

theorem length_add_zero (a : Length) : length_add a length_zero = a := by
  cases a with
  | mk b e => cases e with
    | mk r c => simp [length_add, length_zero, point_add, point__new]

theorem totalSize_bytes (t : Tree) : t.totalSize.bytes = t.totalBytes := by
  simp [Tree.totalSize, Tree.totalBytes, length_add]

/-! ## The loop, field by field -/

/-- Sum over the children of a quantity that depends on the structural index. -/
def sumSI (f : Nat → Tree → Nat) : List Tree → Nat → Nat
  | [], _ => 0
  | c :: rest, si => f si c + sumSI f rest (if c.data.extra then si else si + 1)

def sumErr (selfSym : Nat) : List Tree → Nat
  | [] => 0
  | c :: rest => childErrorCost selfSym c + sumErr selfSym rest

def sumBytes : List Tree → Nat
  | [] => 0
  | c :: rest => c.totalBytes + sumBytes rest

theorem loop_padding_size (lang : Lang) (sym pid : Nat) :
    ∀ (kids : List Tree) (i : Nat) (a : Acc), i ≠ 0 →
      (loop lang sym pid kids i a).padding = a.padding ∧
      (loop lang sym pid kids i a).size = restSize kids a.size
  | [], _, _, _ => by simp [loop, restSize]
  | c :: rest, i, a, hi => by
    have ih := loop_padding_size lang sym pid rest (i + 1) (step lang sym pid a i c) (by omega)
    simp only [loop, restSize]
    rw [ih.1, ih.2]
    simp [step, hi]

theorem loop_padding_size_first (lang : Lang) (sym pid : Nat) (c : Tree) (rest : List Tree) (a : Acc) :
    (loop lang sym pid (c :: rest) 0 a).padding = kidsPadding (c :: rest) ∧
    (loop lang sym pid (c :: rest) 0 a).size = kidsSize (c :: rest) := by
  have ih := loop_padding_size lang sym pid rest 1 (step lang sym pid a 0 c) (by omega)
  simp only [loop, kidsPadding, kidsSize]
  rw [ih.1, ih.2]
  simp [step]

theorem loop_errorCost (lang : Lang) (sym pid : Nat) :
    ∀ (kids : List Tree) (i : Nat) (a : Acc),
      (loop lang sym pid kids i a).errorCost = a.errorCost + sumErr sym kids
  | [], _, _ => by simp [loop, sumErr]
  | c :: rest, i, a => by
    simp only [loop, sumErr]
    rw [loop_errorCost lang sym pid rest]
    simp [step, Nat.add_assoc]

theorem loop_counts (lang : Lang) (sym pid : Nat) :
    ∀ (kids : List Tree) (i : Nat) (a : Acc),
      (loop lang sym pid kids i a).visibleChildCount =
        a.visibleChildCount + sumSI (fun si c => (childCounts lang pid si c).1) kids a.structuralIndex ∧
      (loop lang sym pid kids i a).namedChildCount =
        a.namedChildCount + sumSI (fun si c => (childCounts lang pid si c).2.1) kids a.structuralIndex ∧
      (loop lang sym pid kids i a).visibleDescendantCount =
        a.visibleDescendantCount + sumSI (fun si c => (childCounts lang pid si c).2.2) kids a.structuralIndex
  | [], _, _ => by simp [loop, sumSI]
  | c :: rest, i, a => by
    have ih := loop_counts lang sym pid rest (i + 1) (step lang sym pid a i c)
    simp only [loop, sumSI]
    rw [ih.1, ih.2.1, ih.2.2]
    simp [step, Nat.add_assoc]

theorem restSize_bytes : ∀ (kids : List Tree) (s : Length), (restSize kids s).bytes = s.bytes + sumBytes kids
  | [], s => by simp [restSize, sumBytes]
  | c :: rest, s => by
    simp only [restSize, sumBytes]
    rw [restSize_bytes rest]
    simp [length_add_bytes, totalSize_bytes, Nat.add_assoc]

end TsVerif.C02

namespace TsVerif.C02
open TsGen TsVerif

/-! ## Predicates the theorems are stated with -/

/-- The cached fields of an inner node are what `summarize` computes from its children. -/
def NodeOK (lang : Lang) (d : NodeData) (kids : List Tree) : Prop :=
  d.padding = (summarize lang length_zero d kids).padding ∧
  d.size = (summarize lang length_zero d kids).size ∧
  d.errorCost = (summarize lang length_zero d kids).errorCost ∧
  d.visibleChildCount = (summarize lang length_zero d kids).visibleChildCount ∧
  d.namedChildCount = (summarize lang length_zero d kids).namedChildCount ∧
  d.visibleDescendantCount = (summarize lang length_zero d kids).visibleDescendantCount

/-- A leaf as the constructors leave it (`error_cost = 0`; the count accessors return 0). -/
def LeafOK (d : NodeData) : Prop :=
  d.errorCost = 0 ∧ d.visibleChildCount = 0 ∧ d.namedChildCount = 0 ∧ d.visibleDescendantCount = 0

mutual
  /-- Every inner node of the tree carries the summaries of its children; this is what the
  correspondence check establishes for every dumped real tree. -/
  def Summarized (lang : Lang) : Tree → Prop
    | .mk d kids => (kids = [] → LeafOK d) ∧ (kids ≠ [] → NodeOK lang d kids) ∧ SummarizedL lang kids
  def SummarizedL (lang : Lang) : List Tree → Prop
    | [] => True
    | c :: rest => Summarized lang c ∧ SummarizedL lang rest
end

mutual
  /-- Only the geometry part: padding/size of inner nodes come from the children. -/
  def Sized : Tree → Prop
    | .mk d kids => (kids ≠ [] → d.padding = kidsPadding kids ∧ d.size = kidsSize kids) ∧ SizedL kids
  def SizedL : List Tree → Prop
    | [] => True
    | c :: rest => Sized c ∧ SizedL rest
end

/-! ## Geometry: absolute byte spans from relative sizes -/

mutual
  /-- `pos` is the byte where the subtree's padding starts.  Every child's content lies inside
  the parent's content, recursively. -/
  def NestedAt : Tree → Nat → Prop
    | .mk d kids, pos => KidsWithin kids pos (pos + d.padding.bytes) (pos + d.padding.bytes + d.size.bytes)
  def KidsWithin : List Tree → Nat → Nat → Nat → Prop
    | [], _, _, _ => True
    | c :: rest, cur, lo, hi =>
      lo ≤ cur + c.data.padding.bytes ∧ cur + c.totalBytes ≤ hi ∧ NestedAt c cur ∧
      KidsWithin rest (cur + c.totalBytes) lo hi
end

/-- Content spans `[start, end)` of consecutive siblings laid out from `cur`. -/
def kidSpans : List Tree → Nat → List (Nat × Nat)
  | [], _ => []
  | c :: rest, cur => (cur + c.data.padding.bytes, cur + c.totalBytes) :: kidSpans rest (cur + c.totalBytes)

/-- Position reached after laying out the children from `cur` (bytes, rows and columns). -/
def layoutEnd : List Tree → Length → Length
  | [], cur => cur
  | c :: rest, cur => layoutEnd rest (length_add cur c.totalSize)

theorem layoutEnd_restSize : ∀ (rest : List Tree) (x s : Length),
    layoutEnd rest (length_add x s) = length_add x (restSize rest s)
  | [], x, s => by simp [layoutEnd, restSize]
  | c :: r, x, s => by
    simp only [layoutEnd, restSize]
    rw [length_add_assoc, layoutEnd_restSize r]

theorem summarize_padding_size_aux (lang : Lang) (init : Length) (d : NodeData) (c : Tree) (rest : List Tree) :
    (summarize lang init d (c :: rest)).padding = kidsPadding (c :: rest) ∧
    (summarize lang init d (c :: rest)).size = kidsSize (c :: rest) := by
  have h := loop_padding_size_first lang d.symbol d.productionId c rest { padding := d.padding, size := init }
  simp only [summarize]
  exact h

mutual
  theorem sized_of_summarized (lang : Lang) : ∀ t : Tree, Summarized lang t → Sized t
    | .mk d kids, h => by
      unfold Summarized at h
      unfold Sized
      refine ⟨?_, sizedL_of_summarizedL lang kids h.2.2⟩
      intro hne
      have hn := h.2.1 hne
      cases kids with
      | nil => exact absurd rfl hne
      | cons c rest =>
        have hs := summarize_padding_size_aux lang length_zero d c rest
        exact ⟨hn.1.trans hs.1, hn.2.1.trans hs.2⟩
  theorem sizedL_of_summarizedL (lang : Lang) : ∀ ts : List Tree, SummarizedL lang ts → SizedL ts
    | [], _ => by unfold SizedL; trivial
    | c :: rest, h => by
      unfold SummarizedL at h
      unfold SizedL
      exact ⟨sized_of_summarized lang c h.1, sizedL_of_summarizedL lang rest h.2⟩
end

/-- Later siblings (anything laid out from `cur ≥ lo` that ends by `hi`) stay within `[lo, hi]`. -/
theorem kidsWithin_of_bounds (nested : ∀ c : Tree, Sized c → ∀ pos, NestedAt c pos) :
    ∀ (kids : List Tree) (cur lo hi : Nat), SizedL kids → lo ≤ cur → cur + sumBytes kids ≤ hi →
      KidsWithin kids cur lo hi
  | [], _, _, _, _, _, _ => by unfold KidsWithin; trivial
  | c :: rest, cur, lo, hi, hs, hlo, hhi => by
    unfold SizedL at hs
    unfold KidsWithin
    simp only [sumBytes] at hhi
    refine ⟨by omega, by omega, nested c hs.1 cur, ?_⟩
    exact kidsWithin_of_bounds nested rest _ lo hi hs.2 (by omega) (by omega)

end TsVerif.C02

namespace TsVerif.C02
open TsGen TsVerif

/-! ## Counts -/

theorem summarize_counts_eq (lang : Lang) (init : Length) (d : NodeData) (kids : List Tree) :
    (summarize lang init d kids).visibleChildCount = sumSI (fun si c => (childCounts lang d.productionId si c).1) kids 0 ∧
    (summarize lang init d kids).namedChildCount = sumSI (fun si c => (childCounts lang d.productionId si c).2.1) kids 0 ∧
    (summarize lang init d kids).visibleDescendantCount = sumSI (fun si c => (childCounts lang d.productionId si c).2.2) kids 0 := by
  have h := loop_counts lang d.symbol d.productionId kids 0 { padding := d.padding, size := init }
  simp only [summarize]
  simpa using h

theorem summarize_errorCost_eq (lang : Lang) (init : Length) (d : NodeData) (kids : List Tree) :
    (summarize lang init d kids).errorCost =
      if isErrSym d.symbol then
        sumErr d.symbol kids + ts_subtree__error_extent_cost (loop lang d.symbol d.productionId kids 0 { padding := d.padding, size := init }).size
      else sumErr d.symbol kids := by
  have h := loop_errorCost lang d.symbol d.productionId kids 0 { padding := d.padding, size := init }
  simp only [summarize]
  rw [h]
  simp

/-- The three counts one child contributes are the sizes of what enumeration finds for it. -/
theorem childCounts_spec (lang : Lang) (pid si : Nat) (c : Tree)
    (hend : c.data.symbol = 0 → c.data.extra = true)
    (ih : c.data.visibleChildCount = (enumChildren lang c).length ∧
          c.data.namedChildCount = ((enumChildren lang c).filter (entryNamed lang)).length ∧
          c.data.visibleDescendantCount = countDesc lang c) :
    (childCounts lang pid si c).1 =
      (if c.data.visible || (if c.data.extra then 0 else lang.aliasAt pid si) != 0
        then [(c, (if c.data.extra then 0 else lang.aliasAt pid si))] else enumChildren lang c).length ∧
    (childCounts lang pid si c).2.1 =
      ((if c.data.visible || (if c.data.extra then 0 else lang.aliasAt pid si) != 0
        then [(c, (if c.data.extra then 0 else lang.aliasAt pid si))] else enumChildren lang c).filter (entryNamed lang)).length ∧
    (childCounts lang pid si c).2.2 =
      (if c.data.visible || (if c.data.extra then 0 else lang.aliasAt pid si) != 0 then 1 else 0) + countDesc lang c := by
  obtain ⟨cd, ck⟩ := c
  simp only [Tree.data] at hend ih ⊢
  by_cases hx : cd.extra = true
  · -- extra children never take an alias
    by_cases hv : cd.visible = true
    · simp [childCounts, aliasedAt, hx, hv, Tree.data, ih.2.2]
      refine ⟨?_, by omega⟩
      by_cases hn : cd.named = true <;> simp [List.filter, entryNamed, hn, Tree.data]
    · cases ck with
      | nil => simp [childCounts, aliasedAt, hx, hv, Tree.kids, Tree.data, enumChildren, enumKids, ih.2.2]
      | cons k ks => simp [childCounts, aliasedAt, hx, hv, Tree.kids, Tree.data, ih.1, ih.2.1, ih.2.2]
  · have hs : cd.symbol ≠ 0 := fun h => hx (hend h)
    by_cases ha : lang.aliasAt pid si = 0
    · by_cases hv : cd.visible = true
      · simp [childCounts, aliasedAt, hx, ha, hv, Tree.data, ih.2.2]
        refine ⟨?_, by omega⟩
        by_cases hn : cd.named = true <;> simp [List.filter, entryNamed, hn, Tree.data]
      · cases ck with
        | nil => simp [childCounts, aliasedAt, hx, ha, hv, Tree.kids, Tree.data, enumChildren, enumKids, ih.2.2]
        | cons k ks => simp [childCounts, aliasedAt, hx, ha, hv, Tree.kids, Tree.data, ih.1, ih.2.1, ih.2.2]
    · simp [childCounts, aliasedAt, hx, ha, hs, Tree.data, ih.2.2]
      refine ⟨?_, by omega⟩
      by_cases hn : (lang.symMeta (lang.aliasAt pid si)).named = true <;> simp [List.filter, entryNamed, hn, ha]

/-! ## Error cost -/

theorem extent_cost_pos (s : Length) : ts_subtree__error_extent_cost s > 0 := by
  simp [ts_subtree__error_extent_cost, ERROR_COST_PER_RECOVERY]
  omega

end TsVerif.C02

namespace TsVerif.C02
open TsGen TsVerif

/-! ## Text: measuring byte strings, trees that spell a text -/

/-- Row/column advance of one byte: a newline (10) starts a new row, anything else is a column. -/
def charExtent (b : Nat) : TSPoint := if b = 10 then ⟨1, 0⟩ else ⟨0, 1⟩

/-- Extent of a byte string: the position reached from 0:0 by counting newlines. -/
def extentOf : List Nat → TSPoint
  | [] => ⟨0, 0⟩
  | b :: rest => point_add (charExtent b) (extentOf rest)

/-- A byte string measured the way the lexer measures tokens. -/
def measure (s : List Nat) : Length := ⟨s.length, extentOf s⟩

/-- Row/column of byte offset `i` of `text` obtained by counting newlines. -/
def posAt (text : List Nat) (i : Nat) : Length := measure (text.take i)

theorem point_add_zero_left (p : TSPoint) : point_add ⟨0, 0⟩ p = p := by
  cases p with
  | mk r c =>
    unfold point_add point__new
    by_cases h : r > 0
    · simp [h]
    · have : r = 0 := by omega
      simp [this]

theorem extentOf_append : ∀ (a b : List Nat), extentOf (a ++ b) = point_add (extentOf a) (extentOf b)
  | [], b => by simp [extentOf, point_add_zero_left]
  | x :: a, b => by
    simp only [List.cons_append, extentOf]
    rw [extentOf_append a b, point_add_assoc]

/-- Counting from the left: appending one byte moves to the next row on a newline, else one column. -/
theorem extentOf_snoc (a : List Nat) (b : Nat) :
    extentOf (a ++ [b]) = if b = 10 then ⟨(extentOf a).row + 1, 0⟩ else ⟨(extentOf a).row, (extentOf a).column + 1⟩ := by
  rw [extentOf_append]
  simp only [extentOf, charExtent]
  by_cases h : b = 10
  · simp [h, point_add, point__new]
  · simp [h, point_add, point__new]

theorem measure_append (a b : List Nat) : measure (a ++ b) = length_add (measure a) (measure b) := by
  simp [measure, length_add, extentOf_append]

theorem length_add_zero_left (a : Length) : length_add length_zero a = a := by
  cases a with
  | mk b e => simp [length_add, length_zero, point_add_zero_left]

mutual
  /-- `Yields t s`: the tree spells the byte string `s` — every leaf's padding and size are the
  measures of two consecutive pieces of text, inner nodes concatenate their children. -/
  inductive Yields : Tree → List Nat → Prop
    | leaf (d : NodeData) (p s : List Nat) : d.padding = measure p → d.size = measure s → Yields (.mk d []) (p ++ s)
    | node (d : NodeData) (c : Tree) (rest : List Tree) (s : List Nat) : YieldsL (c :: rest) s → Yields (.mk d (c :: rest)) s
  inductive YieldsL : List Tree → List Nat → Prop
    | nil : YieldsL [] []
    | cons (c : Tree) (rest : List Tree) (s1 s2 : List Nat) : Yields c s1 → YieldsL rest s2 → YieldsL (c :: rest) (s1 ++ s2)
end

mutual
  /-- Every node of the subtree laid out at `pos` has start and end positions (computed the way
  node.c computes them, by `length_add` along the path) equal to the byte offset together with the
  row/column obtained by counting newlines in `text` up to that offset. -/
  def AllAt (text : List Nat) : Tree → Length → Prop
    | .mk d kids, pos =>
      length_add pos d.padding = posAt text (pos.bytes + d.padding.bytes) ∧
      length_add (length_add pos d.padding) d.size = posAt text (pos.bytes + d.padding.bytes + d.size.bytes) ∧
      AllAtL text kids pos
  def AllAtL (text : List Nat) : List Tree → Length → Prop
    | [], _ => True
    | c :: rest, cur => AllAt text c cur ∧ AllAtL text rest (length_add cur c.totalSize)
end

theorem posAt_prefix (a b : List Nat) : posAt (a ++ b) a.length = measure a := by
  simp [posAt]

theorem measure_bytes (s : List Nat) : (measure s).bytes = s.length := rfl


end TsVerif.C02
