import TsVerif.C02.Props
import TsVerif.C09.Tie
/-!
# C02 — the lexer's positions ARE newline counting (towards `Yields`)

`rowcol_by_newlines` needs the hypothesis `Yields`: every leaf's padding and size are the measures (`measure`: byte
count + row/column by newline counting) of consecutive pieces of the text.  Leaves get their padding and size in
`ts_parser__lex` as differences of lexer positions (`token_start_position − start_position`,
`token_end_position − token_start_position`).  This file derives the lexer half of the hypothesis from the port of
`lexer.c` shared with C09 / C13 (`TsVerif.Lex`, tied to the C code by scripted runs of the real lexer):

* `decode_charOK` — a character the UTF-8 decoder accepts contains a newline byte iff it IS the newline character;
  an ill-formed byte is never a newline (so counting newlines by code point = counting them by byte);
* `advance_posOK` — for the default included range and any chunking of the text, `ts_lexer__advance` (both paths,
  either `skip` flag) keeps the invariant "`current_position` = `measure` of the text before it";
* `token_measures` — hence the differences of two positions the lexer takes are the measures of the text between
  them (`length_sub (measure (a ++ b)) (measure a) = measure b`): padding and size of a token are `measure`s of
  consecutive pieces of the text.
-/
namespace TsVerif.C02
open TsGen TsVerif TsVerif.Lex TsVerif.Utf TsVerif.C09

/-! ## UTF-8: no newline byte inside a multi-byte character -/

/-- What a decoded character `(cp, bytes consumed)` must satisfy for newline counting by code point to agree with
newline counting by byte. -/
def CharOK (cp : Int) (bs : List Nat) : Prop := (cp = 10 ∧ bs = [10]) ∨ (cp ≠ 10 ∧ ∀ b ∈ bs, b ≠ 10)

set_option maxRecDepth 100000 in
theorem lead2_pos : ∀ c < 224, 194 ≤ c → 1 ≤ c &&& 0x1f := by decide
set_option maxRecDepth 100000 in
theorem lead3_facts : ∀ c < 240, 224 ≤ c → ∀ t1 < 256,
    (lead3T1Bits.getD (c &&& 0xf) 0) &&& (1 <<< (t1 >>> 5)) ≠ 0 → 1 ≤ (((c &&& 0xf) <<< 6) ||| (t1 &&& 0x3f)) ∧ 128 ≤ t1 := by decide
set_option maxRecDepth 100000 in
theorem lead4_facts : ∀ c < 245, 240 ≤ c → ∀ t1 < 256,
    (lead4T1Bits.getD (t1 >>> 4) 0) &&& (1 <<< (c - 0xf0)) ≠ 0 → 1 ≤ (((c - 0xf0) <<< 6) ||| (t1 &&& 0x3f)) ∧ 128 ≤ t1 := by decide

theorem trailVal_ge (b t : Nat) (h : trailVal b = some t) : 128 ≤ b := by
  unfold trailVal at h
  split at h
  · omega
  · simp at h

theorem cast_ne_ten (v : Nat) (h : 64 ≤ v) : ((v : Nat) : Int) ≠ 10 := by
  intro h0
  have : v = 10 := by exact_mod_cast h0
  omega

theorem shl6_or_ge (a t : Nat) (h : 1 ≤ a) : 64 ≤ (a <<< 6) ||| t := by
  have h1 : a <<< 6 ≤ (a <<< 6) ||| t := Nat.left_le_or
  have h2 : a <<< 6 = a * 64 := by rw [Nat.shiftLeft_eq]
  omega

/-- **decode_charOK.**  A byte string (bytes < 256) that `ts_decode_utf8` accepts: the character consumed contains a
newline byte iff the decoded code point is the newline. -/
theorem decode_charOK (s : List Nat) (hb : ∀ b ∈ s, b < 256) (hc : (decodeUtf8 s).1 ≠ DECODE_ERROR) :
    CharOK (decodeUtf8 s).1 (s.take (decodeUtf8 s).2) := by
  cases s with
  | nil => simp [decodeUtf8] at hc
  | cons c rest =>
    have hc256 : c < 256 := hb c (by simp)
    unfold decodeUtf8 at hc ⊢
    by_cases h80 : c < 0x80
    · simp only [h80, if_true, List.take_succ_cons, List.take_zero]
      by_cases h10 : c = 10
      · left; subst h10; simp
      · right; refine ⟨by intro h; apply h10; exact_mod_cast h, by simp [h10]⟩
    · simp only [h80, if_false] at hc ⊢
      cases rest with
      | nil => simp [DECODE_ERROR] at hc
      | cons t1 rest1 =>
        have ht256 : t1 < 256 := hb t1 (by simp)
        simp only at hc ⊢
        by_cases he0 : c ≥ 0xe0
        · simp only [he0, if_true] at hc ⊢
          by_cases hf0 : c < 0xf0
          · simp only [hf0, if_true] at hc ⊢
            by_cases hchk : (lead3T1Bits.getD (c &&& 0xf) 0) &&& (1 <<< (t1 >>> 5)) ≠ 0
            · simp only [hchk, if_true, ne_eq, not_false_eq_true] at hc ⊢
              obtain ⟨hx, ht1⟩ := lead3_facts c hf0 he0 t1 ht256 hchk
              cases rest1 with
              | nil => simp [DECODE_ERROR] at hc
              | cons t2 rest2 =>
                simp only at hc ⊢
                cases htv : trailVal t2 with
                | none => simp [htv, DECODE_ERROR] at hc
                | some t =>
                  right
                  refine ⟨cast_ne_ten _ (shl6_or_ge _ t hx), ?_⟩
                  have := trailVal_ge t2 t htv
                  intro b hb'
                  simp only [List.take_succ_cons, List.take_zero, List.mem_cons, List.not_mem_nil, or_false] at hb'
                  rcases hb' with h | h | h <;> omega
            · rw [if_neg hchk] at hc; exact absurd rfl hc
          · simp only [hf0, if_false] at hc ⊢
            by_cases hchk : c - 0xf0 ≤ 4 ∧ (lead4T1Bits.getD (t1 >>> 4) 0) &&& (1 <<< (c - 0xf0)) ≠ 0
            · simp only [hchk, if_true, and_self, ne_eq, not_false_eq_true] at hc ⊢
              obtain ⟨hx, ht1⟩ := lead4_facts c (by omega) (by omega) t1 ht256 hchk.2
              cases rest1 with
              | nil => simp [DECODE_ERROR] at hc
              | cons t2 rest2 =>
                simp only at hc ⊢
                cases htv : trailVal t2 with
                | none => simp [htv, DECODE_ERROR] at hc
                | some t =>
                  simp only [htv] at hc ⊢
                  cases rest2 with
                  | nil => simp [DECODE_ERROR] at hc
                  | cons t3 rest3 =>
                    simp only at hc ⊢
                    cases htv3 : trailVal t3 with
                    | none => simp [htv3, DECODE_ERROR] at hc
                    | some t' =>
                      right
                      have h64 : 64 ≤ ((((c - 0xf0) <<< 6) ||| (t1 &&& 0x3f)) <<< 6) ||| t := shl6_or_ge _ t hx
                      refine ⟨cast_ne_ten _ (shl6_or_ge _ t' (by omega)), ?_⟩
                      have h2 := trailVal_ge t2 t htv
                      have h3 := trailVal_ge t3 t' htv3
                      intro b hb'
                      simp only [List.take_succ_cons, List.take_zero, List.mem_cons, List.not_mem_nil, or_false] at hb'
                      rcases hb' with h | h | h | h <;> omega
            · rw [if_neg hchk] at hc; exact absurd rfl hc
        · simp only [he0, if_false] at hc ⊢
          by_cases hc2 : c ≥ 0xc2
          · simp only [hc2, if_true] at hc ⊢
            cases htv : trailVal t1 with
            | none => simp [htv, DECODE_ERROR] at hc
            | some t =>
              right
              have hx := lead2_pos c (by omega) hc2
              refine ⟨cast_ne_ten _ (shl6_or_ge _ t hx), ?_⟩
              have := trailVal_ge t1 t htv
              intro b hb'
              simp only [List.take_succ_cons, List.take_zero, List.mem_cons, List.not_mem_nil, or_false] at hb'
              rcases hb' with h | h <;> omega
          · rw [if_neg hc2] at hc; exact absurd rfl hc

theorem take_of_prefix {p t : List Nat} (h : p <+: t) (n : Nat) (hn : n ≤ p.length) : t.take n = p.take n := by
  obtain ⟨x, rfl⟩ := h
  rw [List.take_append_of_le_length hn]

theorem mem_of_prefix_drop (text : List Nat) (pos : Nat) (p : List Nat) (h : p <+: text.drop pos) : ∀ b ∈ p, b ∈ text := by
  intro b hb
  obtain ⟨x, hx⟩ := h
  have : b ∈ text.drop pos := by rw [← hx]; simp [hb]
  exact List.mem_of_mem_drop this

/-- The look-ahead `decodeAt` computes (with its retry on a fresh chunk) for a chunking of a text of bytes: the
character consumed — the next `size` bytes of the TEXT — contains a newline byte iff the look-ahead is the newline. -/
theorem decodeAt_charOK (text : List Nat) (read : Read) (hch : ChunkingOf text read) (hbt : ∀ b ∈ text, b < 256) (pos : Nat) (bytes : List Nat)
    (hne : bytes ≠ []) (hpre : bytes <+: text.drop pos) :
    CharOK (decodeAt read bytes pos).1 ((text.drop pos).take (decodeAt read bytes pos).2.1) := by
  have hb : bytes.length ≤ text.length - pos := by have := prefix_len hpre; simpa using this
  have hbl : 0 < bytes.length := List.length_pos_iff.2 hne
  have hpos : pos < text.length := by omega
  obtain ⟨hr1, hr2⟩ := hch.1 pos hpos
  obtain ⟨b0, brest, hbs⟩ : ∃ b0 brest, bytes = b0 :: brest := by
    cases bytes with
    | nil => exact absurd rfl hne
    | cons a b => exact ⟨a, b, rfl⟩
  have htake1 : (text.drop pos).take 1 = [b0] := by
    rw [take_of_prefix hpre 1 (by omega), hbs]; simp
  have hb0 : b0 < 256 := hbt b0 (mem_of_prefix_drop text pos bytes hpre b0 (by simp [hbs]))
  have herr1 : ∀ (_ : ¬ b0 < 0x80), CharOK DECODE_ERROR ((text.drop pos).take 1) := by
    intro h
    right
    refine ⟨by simp [DECODE_ERROR], ?_⟩
    rw [htake1]; intro b hb'; simp at hb'; omega
  unfold decodeAt
  simp only
  have hhd : bytes.headD 0 = b0 := by simp [hbs]
  rw [hhd]
  by_cases h80 : b0 < 0x80
  · simp only [h80, if_true]
    rw [htake1]
    by_cases h10 : b0 = 10
    · left; subst h10; simp
    · right; exact ⟨by intro h; apply h10; exact_mod_cast h, by simp [h10]⟩
  · simp only [h80, if_false]
    split
    · split
      · exact herr1 h80
      · rename_i hok
        have hok' : (decodeUtf8 (read pos)).1 ≠ DECODE_ERROR := by simpa using hok
        have hsz := decode_ok_size (read pos) (decodeUtf8 (read pos)).1 (decodeUtf8 (read pos)).2 rfl hok'
        simp only
        rw [take_of_prefix hr2 _ hsz.2]
        exact decode_charOK (read pos) (fun b hb' => hbt b (mem_of_prefix_drop text pos _ hr2 b hb')) hok'
    · split
      · exact herr1 h80
      · rename_i hok
        have hok' : (decodeUtf8 bytes).1 ≠ DECODE_ERROR := by simpa using hok
        have hsz := decode_ok_size bytes (decodeUtf8 bytes).1 (decodeUtf8 bytes).2 rfl hok'
        simp only
        rw [take_of_prefix hpre _ hsz.2]
        exact decode_charOK bytes (fun b hb' => hbt b (mem_of_prefix_drop text pos _ hpre b hb')) hok'

/-! ## The lexer's position is the measure of the text before it -/

/-- `current_position` after consuming a character of `n` bytes with look-ahead `la` (`ts_lexer__do_advance`). -/
def stepPos (p : Length) (la : Int) (n : Nat) : Length :=
  ⟨p.bytes + n, if la == 10 then ⟨p.extent.row + 1, 0⟩ else ⟨p.extent.row, p.extent.column + n⟩⟩

theorem extentOf_nonl : ∀ (bs : List Nat), (∀ b ∈ bs, b ≠ 10) → extentOf bs = ⟨0, bs.length⟩
  | [], _ => rfl
  | b :: bs, h => by
    have hb : b ≠ 10 := h b (by simp)
    simp only [extentOf, charExtent, hb, if_false, extentOf_nonl bs (fun x hx => h x (by simp [hx])), point_add, point__new,
      List.length_cons]
    simp; omega

theorem stepPos_measure (pre bs : List Nat) (la : Int) (h : CharOK la bs) :
    stepPos (measure pre) la bs.length = measure (pre ++ bs) := by
  rcases h with ⟨h1, h2⟩ | ⟨h1, h2⟩
  · subst h1 h2
    simp only [stepPos, measure, List.length_append, List.length_singleton, beq_self_eq_true, if_true, extentOf_snoc]
  · have hla : (la == 10) = false := by simpa using h1
    simp only [stepPos, measure, hla, Bool.false_eq_true, if_false, List.length_append, extentOf_append, extentOf_nonl bs h2,
      point_add, point__new, Nat.lt_irrefl, if_false]

/-- `ts_lexer__do_advance` inside the default range, for either `skip` flag: the position moves by `stepPos`, then the
look-ahead is refilled. -/
theorem doAdvance_refill_pos (read : Read) (l : Lexer) (skip : Bool) (h : Inv l) :
    ∃ l1 : Lexer, l.doAdvance read skip = l1.refill read ∧ l1.pos = stepPos l.pos l.lookahead l.laSize ∧
      l1.ranges = l.ranges ∧ l1.idx = 0 ∧ l1.chunkStart = l.chunkStart ∧ l1.chunk = l.chunk := by
  have hsz : (l.laSize != 0) = true := by simp; have := h.size; omega
  unfold Lexer.doAdvance
  simp only [hsz, if_true]
  by_cases hn : l.lookahead = 10
  · simp only [hn, beq_self_eq_true, if_true, Bool.false_eq_true, if_false]
    have hsk : (if l.skipEmpty = true then skipLF (l.ranges.toList.drop l.idx) ⟨l.pos.bytes + l.laSize, ⟨l.pos.extent.row + 1, 0⟩⟩
        else skipL (l.ranges.toList.drop l.idx) ⟨l.pos.bytes + l.laSize, ⟨l.pos.extent.row + 1, 0⟩⟩) =
        (0, ⟨l.pos.bytes + l.laSize, ⟨l.pos.extent.row + 1, 0⟩⟩, true) := by
      rw [h.ranges, h.idx]
      have := h.small
      cases l.skipEmpty <;> simp [skipL, skipLF, DEFAULT_RANGE, UMAX] at this ⊢ <;> omega
    simp only [hsk]
    cases skip
    · exact ⟨_, rfl, by simp [stepPos, hn], rfl, by simp [h.idx], rfl, rfl⟩
    · exact ⟨_, rfl, by simp [stepPos, hn], rfl, by simp [h.idx], rfl, rfl⟩
  · have hn' : (l.lookahead == 10) = false := by simpa using hn
    simp only [hn', Bool.false_eq_true, if_false]
    generalize hl2 : (if (!(l.pos.bytes == 0 && l.lookahead == BYTE_ORDER_MARK) && l.colValid) = true then
        { l with colValue := l.colValue + 1 } else l) = l2
    have e1 : l2.pos = l.pos ∧ l2.laSize = l.laSize ∧ l2.ranges = l.ranges ∧ l2.idx = l.idx ∧
        l2.chunkStart = l.chunkStart ∧ l2.chunk = l.chunk ∧ l2.skipEmpty = l.skipEmpty := by
      rw [← hl2]; split <;> simp
    obtain ⟨p1, p2, p3, p4, p5, p6, p7⟩ := e1
    simp only [p1, p2, p3, p4, p7]
    have hsk : (if l.skipEmpty = true then skipLF (l.ranges.toList.drop l.idx) ⟨l.pos.bytes + l.laSize, ⟨l.pos.extent.row, l.pos.extent.column + l.laSize⟩⟩
        else skipL (l.ranges.toList.drop l.idx) ⟨l.pos.bytes + l.laSize, ⟨l.pos.extent.row, l.pos.extent.column + l.laSize⟩⟩) =
        (0, ⟨l.pos.bytes + l.laSize, ⟨l.pos.extent.row, l.pos.extent.column + l.laSize⟩⟩, true) := by
      rw [h.ranges, h.idx]
      have := h.small
      cases l.skipEmpty <;> simp [skipL, skipLF, DEFAULT_RANGE, UMAX] at this ⊢ <;> omega
    simp only [hsk]
    cases skip
    · exact ⟨_, rfl, by simp [stepPos, hn'], by simp [p3], by simp [h.idx], by simp [p5], by simp [p6]⟩
    · exact ⟨_, rfl, by simp [stepPos, hn'], by simp [p3], by simp [h.idx], by simp [p5], by simp [p6]⟩

/-- The look-ahead the chunk logic computes at `pos` (not at the end of input) satisfies `CharOK` against the TEXT. -/
theorem coreLook_charOK (text : List Nat) (read : Read) (hch : ChunkingOf text read) (hbt : ∀ b ∈ text, b < 256) (pos : Nat) (c : Cache)
    (hc : CacheOK text c) (hne : (coreLook read pos c).2.2.2 = false) :
    CharOK (coreLook read pos c).1 ((text.drop pos).take (coreLook read pos c).2.1) := by
  have hf : ((fetch read pos c).chunk ≠ [] → (fetch read pos c).chunk <+: text.drop (fetch read pos c).cs ∧
      (fetch read pos c).cs ≤ pos ∧ pos < (fetch read pos c).cs + (fetch read pos c).chunk.length) := by
    unfold fetch
    split
    · intro hne'
      by_cases hp : pos < text.length
      · have := hch.1 pos hp
        have hl : 0 < (read pos).length := List.length_pos_iff.2 this.1
        exact ⟨this.2, Nat.le_refl _, by simp; omega⟩
      · exact absurd (hch.2 pos (by omega)) hne'
    · rename_i hin
      intro hne'
      rcases hc with h0 | hpre
      · exact absurd h0 hne'
      · exact ⟨hpre, by omega, by omega⟩
  unfold coreLook at hne ⊢
  simp only at hne ⊢
  generalize fetch read pos c = c1 at hf hne ⊢
  by_cases he : c1.chunk.isEmpty = true
  · simp [he] at hne
  · have he' : c1.chunk.isEmpty = false := by simpa using he
    have hne1 : c1.chunk ≠ [] := by intro h; simp [h] at he'
    obtain ⟨hpre, h1, h2⟩ := hf hne1
    simp only [he', Bool.false_eq_true, if_false]
    obtain ⟨hb1, hb2⟩ := drop_prefix c1.chunk text c1.cs pos hpre h1 h2
    exact decodeAt_charOK text read hch hbt pos _ hb2 hb1

/-- The invariant: default included range; `current_position` is the measure of the text before it; unless the lexer
is at the end of input, the look-ahead is a character of the text at that position that contains a newline byte iff
it is the newline. -/
structure LInv (text : List Nat) (l : Lexer) : Prop where
  ranges : l.ranges = #[DEFAULT_RANGE]
  posOK : l.pos = measure (text.take l.pos.bytes)
  inText : l.pos.bytes ≤ text.length
  live : l.eof = true ∨ (Inv l ∧ CacheOK text ⟨l.chunkStart, l.chunk⟩ ∧ l.pos.bytes + l.laSize ≤ text.length ∧
          CharOK l.lookahead ((text.drop l.pos.bytes).take l.laSize))

theorem take_one_drop (l : List Nat) : ∀ (i : Nat) (h : i < l.length), (l.drop i).take 1 = [l[i]] := by
  induction l with
  | nil => intro i h; simp at h
  | cons a l ih =>
    intro i h
    cases i with
    | zero => simp
    | succ j => simp only [List.drop_succ_cons, List.getElem_cons_succ]; exact ih j (by simpa using h)

theorem take_add_drop (text : List Nat) (a n : Nat) : text.take (a + n) = text.take a ++ (text.drop a).take n := by
  rw [List.take_add]

/-- **advance_posOK.**  For every text of bytes shorter than 4 GiB, every chunking of it and either `skip` flag:
`ts_lexer__advance` keeps `LInv` — in particular `current_position` stays the measure of the text before it. -/
theorem advance_posOK (text : List Nat) (read : Read) (hch : ChunkingOf text read) (hbt : ∀ b ∈ text, b < 256)
    (hsmall : text.length < UMAX) (l : Lexer) (skip : Bool) (h : LInv text l) : LInv text (l.advance read skip) := by
  rcases h.live with heof | ⟨hinv, hcache, hin, hchar⟩
  · -- at the end of input `advance` does nothing
    have : l.advance read skip = l := by unfold Lexer.advance; simp [heof]
    rw [this]; exact h
  · have hne : l.chunk.isEmpty = false := by
      cases hq : l.chunk with
      | nil => have h1 := hinv.hi; have h2 := hinv.lo; rw [hq] at h1; simp at h1; omega
      | cons a b => rfl
    have hneof : l.eof = false := by simp [Lexer.eof, Lexer.count, hinv.ranges, hinv.idx]
    -- position after the character
    have hlen : ((text.drop l.pos.bytes).take l.laSize).length = l.laSize := by
      simp [List.length_take, List.length_drop]; omega
    have hstep : stepPos l.pos l.lookahead l.laSize = measure (text.take (l.pos.bytes + l.laSize)) := by
      have := stepPos_measure (text.take l.pos.bytes) _ l.lookahead hchar
      rw [hlen, ← h.posOK, ← take_add_drop] at this
      exact this
    -- the general path
    have gen : LInv text (l.doAdvance read skip) := by
      obtain ⟨l1, e, q0, q2, q3, q4, q5⟩ := doAdvance_refill_pos read l skip hinv
      have sp := refill_spec read l1
      simp only at sp
      have q1 : l1.pos.bytes = l.pos.bytes + l.laSize := by rw [q0]; rfl
      rw [q1, q4, q5] at sp
      rw [e]
      have hpos : (l1.refill read).pos = measure (text.take (l.pos.bytes + l.laSize)) := by rw [sp.1, q0, hstep]
      have hb : (l1.refill read).pos.bytes = l.pos.bytes + l.laSize := by rw [sp.1]; exact q1
      refine ⟨by rw [sp.2.1, q2]; exact hinv.ranges, by rw [hb]; exact hpos, by rw [hb]; exact hin, ?_⟩
      cases hr : (coreLook read (l.pos.bytes + l.laSize) ⟨l.chunkStart, l.chunk⟩).2.2.2 with
      | true =>
        left
        have := (sp.2.2.1 hr).1
        simp [Lexer.eof, this, Lexer.count, sp.2.1]
      | false =>
        right
        have hfacts := coreLook_facts text read hch (l.pos.bytes + l.laSize) ⟨l.chunkStart, l.chunk⟩ hcache hr
        simp only at hfacts
        obtain ⟨f1, f2, f3, f4, f5, f6⟩ := hfacts
        obtain ⟨g1, g2, g3, g4, g5⟩ := sp.2.2.2 hr f1
        have hck := coreLook_charOK text read hch hbt (l.pos.bytes + l.laSize) ⟨l.chunkStart, l.chunk⟩ hcache hr
        refine ⟨⟨by rw [sp.2.1, q2]; exact hinv.ranges, by rw [g1]; exact q3, by rw [g3]; exact f5, by rw [g4, hb]; exact f3,
          by rw [g4, g5, hb]; exact f4, by rw [hb, g3]; unfold UMAX at hsmall ⊢; omega⟩, ?_, by rw [hb, g3]; exact f6, by rw [hb, g2, g3]; exact hck⟩
        rw [g4, g5]
        right; exact f2
    unfold Lexer.advance
    simp only [hne, hneof, Bool.or_self, Bool.false_eq_true, if_false]
    split
    · rename_i hfast
      split
      · rename_i hnb
        -- ASCII fast path
        simp only [Bool.and_eq_true, beq_iff_eq, bne_iff_ne, ne_eq, decide_eq_true_eq] at hfast
        obtain ⟨⟨⟨h1, h2⟩, h3⟩, h4⟩ := hfast
        have hla : (l.lookahead == 10) = false := by simpa using h2
        have hsp : stepPos l.pos l.lookahead l.laSize = ⟨l.pos.bytes + 1, ⟨l.pos.extent.row, l.pos.extent.column + 1⟩⟩ := by
          simp [stepPos, hla, h1]
        have hstep1 : stepPos l.pos l.lookahead l.laSize = measure (text.take (l.pos.bytes + 1)) := by rw [hstep, h1]
        rw [h1] at hin
        -- the next byte of the text is the byte of the chunk
        have hpre : l.chunk <+: text.drop l.chunkStart := by
          rcases hcache with h0 | hp
          · simp only at h0; rw [h0] at hne; simp at hne
          · exact hp
        have hlo := hinv.lo
        have hnext : (text.drop (l.pos.bytes + 1)).take 1 = [l.chunk.getD (l.pos.bytes + 1 - l.chunkStart) 0] := by
          obtain ⟨x, hx⟩ := hpre
          have hidx : l.pos.bytes + 1 - l.chunkStart < l.chunk.length := by omega
          have e1 : text.drop (l.pos.bytes + 1) = (text.drop l.chunkStart).drop (l.pos.bytes + 1 - l.chunkStart) := by
            rw [List.drop_drop]; congr 1; omega
          rw [e1, ← hx, List.drop_append_of_le_length (by omega)]
          rw [List.take_append_of_le_length (by simp; omega)]
          rw [List.getD_eq_getElem?_getD, List.getElem?_eq_getElem hidx]
          simp only [Option.getD_some]
          rw [take_one_drop _ _ hidx]
        have hnextin : l.pos.bytes + 1 < text.length := by
          have := prefix_len hpre
          simp at this; omega
        have hfin : ∀ (m : Lexer), m.ranges = l.ranges → m.idx = l.idx → m.pos = ⟨l.pos.bytes + 1, ⟨l.pos.extent.row, l.pos.extent.column + 1⟩⟩ →
            m.laSize = l.laSize → m.chunkStart = l.chunkStart → m.chunk = l.chunk →
            m.lookahead = ((l.chunk.getD (l.pos.bytes + 1 - l.chunkStart) 0 : Nat) : Int) → LInv text m := by
          intro m m1 m2 m3 m4 m5 m6 m7
          have mb : m.pos.bytes = l.pos.bytes + 1 := by rw [m3]
          refine ⟨by rw [m1]; exact hinv.ranges, by rw [mb, m3, ← hsp, hstep1], by rw [mb]; omega, ?_⟩
          right
          refine ⟨⟨by rw [m1]; exact hinv.ranges, by rw [m2]; exact hinv.idx, by rw [m4]; exact hinv.size, by rw [m5, mb]; omega,
            by rw [m5, m6, mb]; omega, by rw [mb, m4, h1]; unfold UMAX at hsmall ⊢; omega⟩, by rw [m5, m6]; exact hcache, by rw [mb, m4, h1]; omega, ?_⟩
          rw [mb, m4, h1, hnext, m7]
          by_cases h10 : l.chunk.getD (l.pos.bytes + 1 - l.chunkStart) 0 = 10
          · left; rw [h10]; simp
          · right
            refine ⟨by intro hh; apply h10; exact_mod_cast hh, ?_⟩
            intro b hb'
            simp only [List.mem_singleton] at hb'
            subst hb'; exact h10
        cases hcv : l.colValid <;> cases skip <;> simp only [Bool.false_eq_true, if_true, if_false] <;>
          exact hfin _ rfl rfl rfl rfl rfl rfl rfl
      · exact gen
    · exact gen

/-- Refilling the look-ahead at a position that is the measure of the text before it establishes the invariant. -/
theorem refill_LInv (text : List Nat) (read : Read) (hch : ChunkingOf text read) (hbt : ∀ b ∈ text, b < 256) (hsmall : text.length < UMAX)
    (m : Lexer) (hr : m.ranges = #[DEFAULT_RANGE]) (hi : m.idx = 0) (hp : m.pos = measure (text.take m.pos.bytes))
    (hin : m.pos.bytes ≤ text.length) (hc : CacheOK text ⟨m.chunkStart, m.chunk⟩) : LInv text (m.refill read) := by
  have sp := refill_spec read m
  simp only at sp
  have hb : (m.refill read).pos.bytes = m.pos.bytes := by rw [sp.1]
  refine ⟨by rw [sp.2.1]; exact hr, by rw [hb, sp.1]; exact hp, by rw [hb]; exact hin, ?_⟩
  cases hrr : (coreLook read m.pos.bytes ⟨m.chunkStart, m.chunk⟩).2.2.2 with
  | true =>
    left
    have := (sp.2.2.1 hrr).1
    simp [Lexer.eof, this, Lexer.count, sp.2.1]
  | false =>
    right
    have hfacts := coreLook_facts text read hch m.pos.bytes ⟨m.chunkStart, m.chunk⟩ hc hrr
    simp only at hfacts
    obtain ⟨f1, f2, f3, f4, f5, f6⟩ := hfacts
    obtain ⟨g1, g2, g3, g4, g5⟩ := sp.2.2.2 hrr f1
    have hck := coreLook_charOK text read hch hbt m.pos.bytes ⟨m.chunkStart, m.chunk⟩ hc hrr
    refine ⟨⟨by rw [sp.2.1]; exact hr, by rw [g1]; exact hi, by rw [g3]; exact f5, by rw [g4, hb]; exact f3,
      by rw [g4, g5, hb]; exact f4, by rw [hb, g3]; unfold UMAX at hsmall ⊢; omega⟩, ?_, by rw [hb, g3]; exact f6, by rw [hb, g2, g3]; exact hck⟩
    rw [g4, g5]
    right; exact f2

/-- The column cache (`did_get_column` bookkeeping) plays no role in the invariant. -/
theorem LInv_col (text : List Nat) (l : Lexer) (a : Bool) (b : Nat) (h : LInv text l) :
    LInv text { l with colValid := a, colValue := b } := by
  obtain ⟨h1, h2, h3, h4⟩ := h
  refine ⟨h1, h2, h3, ?_⟩
  rcases h4 with h4 | ⟨hi, hc, hn, hk⟩
  · left; simpa [Lexer.eof, Lexer.count] using h4
  · right
    exact ⟨⟨hi.ranges, hi.idx, hi.size, hi.lo, hi.hi, hi.small⟩, hc, hn, hk⟩

/-- `ts_lexer_set_input` + `ts_lexer_start` on a fresh lexer: the invariant holds (a leading byte order mark is
stepped over by `advance`, its three bytes counted as three columns). -/
theorem start_LInv (text : List Nat) (read : Read) (hch : ChunkingOf text read) (hbt : ∀ b ∈ text, b < 256) (hsmall : text.length < UMAX) :
    LInv text (({} : Lexer).setInput.start read) := by
  rw [start_eq]
  obtain ⟨f1, f2, f3, f4, f5, f6⟩ := l00_fields
  have h0 : LInv text (l00.refill read) :=
    refill_LInv text read hch hbt hsmall l00 f3 f2 (by rw [f1]; simp [measure, length_zero, extentOf]) (by rw [f1]; simp [length_zero])
      (by left; exact f4)
  apply LInv_col
  split
  · exact advance_posOK text read hch hbt hsmall _ true h0
  · exact h0

/-- `ts_lexer__mark_end` inside the default range only copies the position. -/
theorem markEnd_LInv (text : List Nat) (l : Lexer) (h : LInv text l) : LInv text l.markEnd ∧ l.markEnd.tokEnd = l.pos ∧ l.markEnd.pos = l.pos := by
  have key : l.markEnd = { l with tokEnd := l.pos } := by
    unfold Lexer.markEnd
    by_cases he : l.eof = true
    · simp [he]
    · have he' : l.eof = false := by simpa using he
      have h0 : l.idx = 0 := by
        rcases h.live with h1 | ⟨hi, _⟩
        · rw [h1] at he'; cases he'
        · exact hi.idx
      have hc : (decide (l.idx > 0) && (l.pos.bytes == (l.range l.idx).start_byte)) = false := by simp [h0]
      simp only [he', Bool.not_false, if_true, hc, Bool.false_eq_true, if_false]
  rw [key]
  refine ⟨⟨h.ranges, h.posOK, h.inText, ?_⟩, rfl, rfl⟩
  rcases h.live with h1 | ⟨hi, hc, hn, hk⟩
  · left; simpa [Lexer.eof, Lexer.count] using h1
  · right; exact ⟨⟨hi.ranges, hi.idx, hi.size, hi.lo, hi.hi, hi.small⟩, hc, hn, hk⟩

/-- The states a lexer goes through while tokens are lexed from a fresh input (whole document included): start, then
any sequence of `advance` (either flag) and `mark_end`. -/
inductive Reach (read : Read) : Lexer → Prop
  | start : Reach read (({} : Lexer).setInput.start read)
  | advance (l : Lexer) (skip : Bool) : Reach read l → Reach read (l.advance read skip)
  | markEnd (l : Lexer) : Reach read l → Reach read l.markEnd

/-- **lexer_position_is_measure.**  In every reachable state `current_position` = (byte offset, row/column obtained
by counting newline bytes in the text before it). -/
theorem lexer_position_is_measure (text : List Nat) (read : Read) (hch : ChunkingOf text read) (hbt : ∀ b ∈ text, b < 256)
    (hsmall : text.length < UMAX) (l : Lexer) (hr : Reach read l) : LInv text l := by
  induction hr with
  | start => exact start_LInv text read hch hbt hsmall
  | advance l skip _ ih => exact advance_posOK text read hch hbt hsmall l skip ih
  | markEnd l _ ih => exact (markEnd_LInv text l ih).1

/-! ## Differences of positions are measures of the text between them -/

theorem point_sub_add (a b : TSPoint) : point_sub (point_add a b) a = b := by
  obtain ⟨ar, ac⟩ := a
  obtain ⟨br, bc⟩ := b
  simp only [point_add, point_sub, point__new]
  by_cases h : br > 0
  · simp only [h, if_true]
    have : ar + br > ar := by omega
    simp only [this, if_true]
    congr 1; omega
  · have h0 : br = 0 := by omega
    subst h0
    simp

theorem length_sub_measure (x y : List Nat) : length_sub (measure (x ++ y)) (measure x) = measure y := by
  rw [measure_append]
  simp only [length_sub, length_add, measure, point_sub_add]
  have : x.length + y.length ≥ x.length := by omega
  simp [this]

/-- **token_measures.**  Two positions the lexer takes (`a ≤ b` in bytes): their difference (`length_sub`, as
`ts_parser__lex` computes padding and size) is the measure of the text between them. -/
theorem token_measures (text : List Nat) (l1 l2 : Lexer) (h1 : LInv text l1) (h2 : LInv text l2) (hle : l1.pos.bytes ≤ l2.pos.bytes) :
    length_sub l2.pos l1.pos = measure ((text.drop l1.pos.bytes).take (l2.pos.bytes - l1.pos.bytes)) := by
  have p1 := h1.posOK
  have p2 := h2.posOK
  generalize l1.pos.bytes = a at hle p1 ⊢
  generalize l2.pos.bytes = b at hle p2 ⊢
  have e : text.take b = text.take a ++ (text.drop a).take (b - a) := by
    have : b = a + (b - a) := by omega
    conv => lhs; rw [this]
    exact take_add_drop text _ _
  rw [p2, p1, e]
  exact length_sub_measure _ _

/-- **lexed_leaf_yields.**  A leaf whose padding and size are computed the way `ts_parser__lex` computes them from
three lexer positions — where lexing started, `token_start_position`, `token_end_position` — spells the piece of the
text between the first and the last: it satisfies `Yields`, the leaf hypothesis of `rowcol_by_newlines`. -/
theorem lexed_leaf_yields (text : List Nat) (d : NodeData) (l0 ls le : Lexer) (h0 : LInv text l0) (hs : LInv text ls) (he : LInv text le)
    (h1 : l0.pos.bytes ≤ ls.pos.bytes) (h2 : ls.pos.bytes ≤ le.pos.bytes)
    (hp : d.padding = length_sub ls.pos l0.pos) (hz : d.size = length_sub le.pos ls.pos) :
    Yields (.mk d []) ((text.drop l0.pos.bytes).take (le.pos.bytes - l0.pos.bytes)) := by
  have e : (text.drop l0.pos.bytes).take (le.pos.bytes - l0.pos.bytes) =
      (text.drop l0.pos.bytes).take (ls.pos.bytes - l0.pos.bytes) ++ (text.drop ls.pos.bytes).take (le.pos.bytes - ls.pos.bytes) := by
    have : le.pos.bytes - l0.pos.bytes = (ls.pos.bytes - l0.pos.bytes) + (le.pos.bytes - ls.pos.bytes) := by omega
    rw [this, take_add_drop, List.drop_drop]
    congr 3; omega
  rw [e]
  exact Yields.leaf d _ _ (by rw [hp]; exact token_measures text l0 ls h0 hs h1) (by rw [hz]; exact token_measures text ls le hs he h2)

/-! ## Non-vacuity: the text `a\nb`, delivered in chunks of at most two bytes -/

def nvText : List Nat := [97, 10, 98]
def nvRead : Read := fun i => (nvText.drop i).take 2

theorem nvChunking : ChunkingOf nvText nvRead := by
  constructor
  · intro i hi
    have : i = 0 ∨ i = 1 ∨ i = 2 := by simp [nvText] at hi; omega
    rcases this with rfl | rfl | rfl <;> exact ⟨by decide, List.take_prefix _ _⟩
  · intro i hi
    simp only [nvText, List.length_cons, List.length_nil] at hi
    simp only [nvRead, nvText]
    rw [List.drop_eq_nil_of_le (by simp; omega)]
    rfl

/-- after `a` and the newline the lexer stands at byte 2, row 1, column 0 — the measure of `a\n` -/
example : ((((({} : Lexer).setInput.start nvRead).advance nvRead false).advance nvRead true).pos) = measure (nvText.take 2) := by decide
example := lexer_position_is_measure nvText nvRead nvChunking (by decide) (by decide) _
  (Reach.advance _ true (Reach.advance _ false Reach.start))

end TsVerif.C02
