import TsVerif.C02.Lemmas
import TsVerif.C02.LexLoop
/-!
# C02 — Every parse terminates with a well-formed tree that tiles the text

Property text (properties.jsonl): *For any byte sequence (in the language or not, valid UTF-8 or
not) parsing terminates and returns a tree in which every node lies inside the text, children are
ordered, disjoint and contained in their parent, every row/column equals the position obtained by
counting newlines in the text, and every byte that is not skipped whitespace/extra lies inside a
leaf.  A literal-string token node covers exactly that string, MISSING nodes are empty, a node
reports has_error exactly when it or a descendant is ERROR or MISSING, and the advertised child,
named-child and descendant counts equal what enumeration finds.*

The model is the port of `ts_subtree_summarize_children` and of the leaf constructors
(`Model.lean`); `Summarized lang t` says every inner node of `t` carries what that port computes
from its children — the correspondence check establishes exactly this for every dumped real tree.

Clause → theorem   (P = proved ∀-theorem over the port, tied by correspondence; P(h) = proved under a decidable hypothesis that is
evaluated with the conclusion on every real tree; J = decided by the Lean judge on the implementation's output for every explored
input, not proved; A = assumed)

* "for any byte sequence … parsing TERMINATES and returns a tree" ............................ J + A, one local P:
  - P (local, NOT tied): `lex_skip_progress`, `lex_skip_enter`, `lexLoop_skipping_terminates`, `lex_terminates` — the retry / error-skip
    `for (;;)` of `ts_parser__lex` (hand port `LexLoop.lean`; the external scanner and the generated `ts_lex` are ONE abstract parameter)
    returns within `len − start + 4` rounds, under A = `LexEnvOK` (a lexing attempt only moves forward and stays inside the text, skipping
    a character before EOF consumes ≥ 1 byte).  `LexEnvOK` is an assumption about lexer.c / the generated lex function / user scanners;
    the port is not compared with the C loop.
  - J: every explored parse (≈4 800 per quick run: all zoo grammars × sentences, mutations, edits + re-parse, included ranges, 32 kinds of
    special documents) returns a non-null tree (`termination:null`) while the REAL operation counter stays under a linear budget
    (`termination:budget`): the runtime calls `ts_parser__check_progress` once per iteration of the main loop of `ts_parser__advance`
    and per (scaled) iteration of `ts_parser__balance_subtree` and invokes the progress callback every 100 counted operations; the
    explorer aborts at `200 + 40·len` callbacks, i.e. the parse used < (200 + 40·len)·100 counted operations (measured maximum
    ≈ 0.05–0.1 callbacks per byte).  Loops that never reach the counter (inside `ts_lex`, a user scanner, `ts_parser__recover`,
    `ts_parser__condense_stack`, reductions) are covered only by a wall-clock watchdog: 60 s (thorough: 300 s) ⇒ `termination:timeout`.
  - NOT proved, not modelled: termination of the GLR driver (`ts_parser__advance` over the version stack, `ts_parser__recover`,
    `ts_parser__condense_stack`, cost pruning) — no progress measure for it is stated; that a tree is always returned.
* "every node lies inside the text" ........................................................... J (`contained`, `api:inside_text`);
  P for the relative part: `spans_nested` (all `Sized` trees, all positions: children inside the parent, recursively)
* "children are ordered, disjoint and contained in their parent" ............................. P: `siblings_ordered`, `spans_nested`,
  `tiles` (children end exactly where the parent ends, bytes/rows/columns); after edits `edit_preserves_summaries`,
  `edited_spans_nested` (C10); after rebalancing `balance_sized`, `balance_root_extent`.  J on the API: `api:child_in_parent`,
  `api:siblings_ordered_disjoint`
* "every row/column equals the position obtained by counting newlines" ....................... P(h): `rowcol_by_newlines` (+ `yields_total`,
  `extentOf_snoc`) under h = `Yields` (every LEAF's padding and size measure consecutive pieces of the text).  The lexer half of h is P
  (`LexYields.lean`: `lexer_position_is_measure`, `token_measures`, `lexed_leaf_yields` over the lexer.c port of C09/C13: default range, UTF-8, any chunking);
  the ASSEMBLY half of h is P for an abstract shift / reduce / accept stack machine over the `newNode` port (`Round11.lean`: `newNode_sized`,
  `newNode_yields`, `run_tiles`, `run_rowcol`, `accept_tiles`, `parse_tiles`, `shiftLexed_ok`: every tree such a machine can build tiles the text
  consumed); that every GLR version performs only such operations and lexes from where the consumed text ends is A; the CONCLUSION is judged on
  every raw node of every tree (`rowcol`).  `balance_yields`: rebalancing keeps h
* "every byte that is not skipped whitespace/extra lies inside a leaf" ....................... J only (`padding_skippable`,
  `trailing_skippable`; two known findings of the lexer generator)
* "a literal-string token node covers exactly that string" ................................... J only (`literal`; subject of C14)
* "MISSING nodes are empty" ................................................................... P: `missing_empty` (constructor port); J `missing_empty`
* "has_error exactly when it or a descendant is ERROR or MISSING" ............................ P(h) partial: `has_error_iff_partial`
  / `cost_pos_iff` (what `error_cost > 0` detects, h = `Summarized` + `shapeOK`, both evaluated on every tree); the full clause is
  FALSE on the unchanged code (`has_error_full_false`: ERROR leaf, known finding with fix) and P(h) for the repaired function
  (`has_error_fixed_iff`)
* "advertised child, named-child and descendant counts equal what enumeration finds" ......... P(h): `summarize_counts` (h as above);
  kept by rebalancing: `compress_summarized`, `balance_summarized` (h = `balanceOK`, evaluated); J `count:*` through the API;
  the counts fit their C fields: `counts_fit_32` (WidthProps.lean) + the field widths of the real struct measured on every run (`tie:cached-field-widths…`)
* summaries themselves (support) ............................................................... P: `summarize_padding_size`, `nodeOK_summarize`;
  T-corr recomputes every cached summary of every inner node of every real tree

Boundary conventions: positions are byte offsets of the start of a subtree's padding; the
content of a node is `[pos + padding, pos + padding + size)`; "ERROR" means symbol 65535
(`ts_builtin_sym_error`); the hidden `_ERROR` repeat (65534) is not an ERROR node by itself.
-/
namespace TsVerif.C02
open TsGen TsVerif

/-- `summarize_padding_size`: the padding the loop assigns is the first child's padding, the size
is the first child's size plus the total sizes of the others (for every language, every stale
initial size, every node data and every non-empty child list). -/
theorem summarize_padding_size (lang : Lang) (init : Length) (d : NodeData) (c : Tree) (rest : List Tree) :
    (summarize lang init d (c :: rest)).padding = c.data.padding ∧
    (summarize lang init d (c :: rest)).size = restSize rest c.data.size :=
  summarize_padding_size_aux lang init d c rest

mutual
  /-- `spans_nested`: for EVERY tree whose inner nodes have padding/size = what summarize computes,
  at every position, every node's content lies inside its parent's content (relative sizes make
  escaping the parent impossible). -/
  theorem spans_nested : ∀ (t : Tree), Sized t → ∀ pos : Nat, NestedAt t pos
    | .mk d kids, h, pos => by
      unfold Sized at h
      unfold NestedAt
      cases hk : kids with
      | nil => unfold KidsWithin; trivial
      | cons c rest =>
        have hne : kids ≠ [] := by simp [hk]
        have hp := h.1 hne
        rw [hk] at hp
        have hb : (kidsSize (c :: rest)).bytes = c.data.size.bytes + sumBytes rest := by
          simp [kidsSize, restSize_bytes]
        rw [← hk]
        apply kids_within kids pos _ _ h.2
        · rw [hp.1, hk]; exact Nat.le_refl _
        · rw [hp.1, hp.2, hk, hb]
          simp [kidsPadding, sumBytes, Tree.totalBytes]
          omega
  theorem kids_within : ∀ (kids : List Tree) (cur lo hi : Nat), SizedL kids →
      lo ≤ cur + (kidsPadding kids).bytes → cur + sumBytes kids ≤ hi → KidsWithin kids cur lo hi
    | [], _, _, _, _, _, _ => by unfold KidsWithin; trivial
    | c :: rest, cur, lo, hi, hs, hlo, hhi => by
      unfold SizedL at hs
      unfold KidsWithin
      simp only [sumBytes] at hhi
      simp only [kidsPadding] at hlo
      refine ⟨hlo, by omega, spans_nested c hs.1 cur, ?_⟩
      apply kids_within rest _ lo hi hs.2
      · simp only [Tree.totalBytes]; omega
      · omega
end

/-- Every span produced by laying children out from `cur` starts at or after `cur` and is well
formed. -/
theorem kidSpans_lower : ∀ (kids : List Tree) (cur : Nat) (s : Nat × Nat), s ∈ kidSpans kids cur → cur ≤ s.1 ∧ s.1 ≤ s.2
  | [], _, _, h => by simp [kidSpans] at h
  | c :: rest, cur, s, h => by
    simp only [kidSpans, List.mem_cons] at h
    cases h with
    | inl h => subst h; simp [Tree.totalBytes]
    | inr h =>
      have := kidSpans_lower rest _ s h
      omega

/-- `siblings_ordered`: the content spans of the children of any node, at any position, are in
order and pairwise disjoint (each ends before the next begins). -/
theorem siblings_ordered : ∀ (kids : List Tree) (cur : Nat), (kidSpans kids cur).Pairwise (fun a b => a.2 ≤ b.1)
  | [], _ => by simp [kidSpans]
  | c :: rest, cur => by
    simp only [kidSpans, List.pairwise_cons]
    refine ⟨?_, siblings_ordered rest _⟩
    intro s hs
    exact (kidSpans_lower rest _ s hs).1

/-- `tiles`: in a node whose padding/size are the summaries of its (non-empty) children, laying
the children out one after the other from the node's position ends exactly at the node's end —
in bytes, rows and columns.  Hence the children's paddings and contents partition the node's
extent, and recursively the leaves' paddings and contents partition `[0, total)`. -/
theorem tiles (d : NodeData) (c : Tree) (rest : List Tree) (pos : Length)
    (hp : d.padding = kidsPadding (c :: rest)) (hs : d.size = kidsSize (c :: rest)) :
    layoutEnd (c :: rest) pos = length_add (length_add pos d.padding) d.size := by
  rw [hp, hs]
  simp only [layoutEnd, kidsPadding, kidsSize, Tree.totalSize]
  rw [← length_add_assoc, layoutEnd_restSize]

mutual
  /-- `yields_total`: a summarized tree that spells `s` has total size (padding + size, in bytes,
  rows and columns) equal to the measure of `s`; its children laid out from any position end at
  that position plus the measure. -/
  theorem yields_total : ∀ (t : Tree) (s : List Nat), Sized t → Yields t s → t.totalSize = measure s
    | .mk d [], s, _, hy => by
      cases hy with
      | leaf _ p q hp hs => simp [Tree.totalSize, Tree.data, hp, hs, measure_append]
    | .mk d (c :: rest), s, hs, hy => by
      cases hy with
      | node _ _ _ _ hl =>
        unfold Sized at hs
        have hps := hs.1 (by simp)
        have ht := tiles d c rest length_zero hps.1 hps.2
        have hl' := yieldsL_layout (c :: rest) s length_zero hs.2 hl
        rw [hl', length_add_zero_left] at ht
        simp only [Tree.totalSize, Tree.data]
        rw [length_add_zero_left] at ht
        exact ht.symm
  theorem yieldsL_layout : ∀ (kids : List Tree) (s : List Nat) (pos : Length), SizedL kids → YieldsL kids s →
      layoutEnd kids pos = length_add pos (measure s)
    | [], s, pos, _, hy => by
      cases hy with
      | nil => simp [layoutEnd, measure, extentOf, length_add, point_add, point__new]
    | c :: rest, s, pos, hs, hy => by
      cases hy with
      | cons _ _ s1 s2 h1 h2 =>
        unfold SizedL at hs
        simp only [layoutEnd]
        rw [yields_total c s1 hs.1 h1, yieldsL_layout rest s2 _ hs.2 h2, measure_append, length_add_assoc]
end


mutual
  theorem rowcol_aux : ∀ (t : Tree) (s pre post text : List Nat) (pos : Length), Sized t → Yields t s →
      text = pre ++ s ++ post → pos = measure pre → AllAt text t pos
    | .mk d [], s, pre, post, text, pos, _, hy, ht, hp => by
      cases hy with
      | leaf _ p q hpad hsz =>
        unfold AllAt
        subst hp ht
        refine ⟨?_, ?_, by unfold AllAtL; trivial⟩
        · rw [hpad, ← measure_append, measure_bytes, measure_bytes]
          have : pre ++ (p ++ q) ++ post = (pre ++ p) ++ (q ++ post) := by simp
          rw [this, ← List.length_append, posAt_prefix]
        · rw [hpad, hsz, ← measure_append, ← measure_append, measure_bytes, measure_bytes, measure_bytes]
          have : pre ++ (p ++ q) ++ post = (pre ++ p ++ q) ++ post := by simp
          rw [this, ← List.length_append, ← List.length_append, posAt_prefix]
    | .mk d (c :: rest), s, pre, post, text, pos, hs, hy, ht, hp => by
      have htot := yields_total (.mk d (c :: rest)) s hs hy
      cases hy with
      | node _ _ _ _ hl =>
        have hs' := hs
        unfold Sized at hs'
        have hps := hs'.1 (by simp)
        have hk := rowcolL_aux (c :: rest) s pre post text pos hs'.2 hl ht hp
        unfold AllAt
        refine ⟨?_, ?_, hk⟩
        · -- the node starts where its first child starts
          unfold AllAtL at hk
          obtain ⟨cd, ck⟩ := c
          have h1 := hk.1
          unfold AllAt at h1
          simp only [kidsPadding, Tree.data] at hps
          rw [hps.1]
          exact h1.1
        · simp only [Tree.totalSize, Tree.data] at htot
          have hb : d.padding.bytes + d.size.bytes = s.length := by
            have := congrArg Length.bytes htot
            simpa [length_add_bytes, measure_bytes] using this
          subst hp ht
          rw [length_add_assoc, htot, ← measure_append, measure_bytes]
          have : (pre.length + d.padding.bytes + d.size.bytes) = (pre ++ s).length := by
            simp [List.length_append]; omega
          rw [this, posAt_prefix]
  theorem rowcolL_aux : ∀ (kids : List Tree) (s pre post text : List Nat) (pos : Length), SizedL kids → YieldsL kids s →
      text = pre ++ s ++ post → pos = measure pre → AllAtL text kids pos
    | [], _, _, _, _, _, _, _, _, _ => by unfold AllAtL; trivial
    | c :: rest, s, pre, post, text, pos, hs, hy, ht, hp => by
      cases hy with
      | cons _ _ s1 s2 h1 h2 =>
        unfold SizedL at hs
        unfold AllAtL
        refine ⟨rowcol_aux c s1 pre (s2 ++ post) text pos hs.1 h1 (by rw [ht]; simp) hp, ?_⟩
        apply rowcolL_aux rest s2 (pre ++ s1) post text _ hs.2 h2 (by rw [ht]; simp)
        rw [yields_total c s1 hs.1 h1, hp, measure_append]
end

/-- `rowcol_by_newlines`: if the tree spells the text (`Yields root text`: each leaf's padding and
size are the measures of consecutive pieces of text) and inner nodes carry the summaries, then for
EVERY node — hidden ones included — the start and end positions obtained by adding relative
lengths along the path are exactly (byte offset, row/column counted by newlines in the text). -/
theorem rowcol_by_newlines (root : Tree) (text : List Nat) (hs : Sized root) (hy : Yields root text) :
    AllAt text root length_zero :=
  rowcol_aux root text [] [] text length_zero hs hy (by simp) (by simp [measure, extentOf, length_zero])


/-- `missing_empty`: a MISSING leaf built by the port of `ts_subtree_new_missing_leaf` is empty
(zero bytes, rows and columns), is marked missing, and costs 610 — whatever the language, symbol,
state, padding and look-ahead. -/
theorem missing_empty (lang : Lang) (symbol state : Nat) (padding : Length) (lookahead : Nat) :
    (newMissingLeaf lang symbol state padding lookahead).data.size = length_zero ∧
    (newMissingLeaf lang symbol state padding lookahead).data.isMissing = true ∧
    (newMissingLeaf lang symbol state padding lookahead).kids = [] ∧
    errorCostOf (newMissingLeaf lang symbol state padding lookahead) = 610 := by
  simp [newMissingLeaf, newLeaf, Tree.data, Tree.kids, errorCostOf, ERROR_COST_PER_MISSING_TREE, ERROR_COST_PER_RECOVERY]

mutual
  /-- `summarize_counts`: in every tree whose inner nodes carry the port's summaries (and in which
  the `end` symbol is extra — part of `shapeOK`), the advertised child count, named-child count and
  descendant count of EVERY node equal the lengths of the enumerations that `ts_node_child`
  iteration yields (aliases and hidden children included). -/
  theorem summarize_counts (lang : Lang) : ∀ (t : Tree) (ps : Option Nat), Summarized lang t → shapeOK ps t = true →
      t.data.visibleChildCount = (enumChildren lang t).length ∧
      t.data.namedChildCount = ((enumChildren lang t).filter (entryNamed lang)).length ∧
      t.data.visibleDescendantCount = countDesc lang t
    | .mk d kids, ps, hs, hsh => by
      unfold Summarized at hs
      unfold shapeOK at hsh
      simp only [Bool.and_eq_true] at hsh
      have hk := sum_counts lang kids d.productionId 0 (some d.symbol) hs.2.2 hsh.2
      unfold enumChildren countDesc
      simp only [Tree.data]
      cases hkk : kids with
      | nil =>
        have hl := hs.1 hkk
        simp [enumKids, countDescKids, hl.2.1, hl.2.2.1, hl.2.2.2]
      | cons c rest =>
        have hne : kids ≠ [] := by simp [hkk]
        have hn := hs.2.1 hne
        have hc := summarize_counts_eq lang length_zero d kids
        rw [← hkk]
        refine ⟨?_, ?_, ?_⟩
        · rw [hn.2.2.2.1, hc.1, hk.1]
        · rw [hn.2.2.2.2.1, hc.2.1, hk.2.1]
        · rw [hn.2.2.2.2.2, hc.2.2, hk.2.2]
  theorem sum_counts (lang : Lang) : ∀ (kids : List Tree) (pid si : Nat) (ps : Option Nat),
      SummarizedL lang kids → shapeOKL ps kids = true →
      sumSI (fun si c => (childCounts lang pid si c).1) kids si = (enumKids lang pid kids si).length ∧
      sumSI (fun si c => (childCounts lang pid si c).2.1) kids si = ((enumKids lang pid kids si).filter (entryNamed lang)).length ∧
      sumSI (fun si c => (childCounts lang pid si c).2.2) kids si = countDescKids lang pid kids si
    | [], _, _, _, _, _ => by simp [sumSI, enumKids, countDescKids]
    | c :: rest, pid, si, ps, hs, hsh => by
      unfold SummarizedL at hs
      unfold shapeOKL at hsh
      simp only [Bool.and_eq_true] at hsh
      have ihc := summarize_counts lang c ps hs.1 hsh.1
      have ihr := sum_counts lang rest pid (if c.data.extra then si else si + 1) ps hs.2 hsh.2
      have hend : c.data.symbol = 0 → c.data.extra = true := by
        obtain ⟨cd, ck⟩ := c
        have h := hsh.1
        unfold shapeOK at h
        simp only [Bool.and_eq_true, Bool.or_eq_true, bne_iff_ne, ne_eq] at h
        intro h0
        simp only [Tree.data] at h0 ⊢
        cases h.1.2 with
        | inl h1 => exact absurd h0 h1
        | inr h1 => exact h1
      have hcc := childCounts_spec lang pid si c hend ihc
      simp only [sumSI, enumKids, countDescKids, List.length_append, List.filter_append]
      rw [hcc.1, hcc.2.1, hcc.2.2, ihr.1, ihr.2.1, ihr.2.2]
      simp [Nat.add_assoc]
end

mutual
  /-- `has_error_iff_partial` (cost form): in a summarized tree with the parser's shape invariant,
  `ts_subtree_error_cost > 0` holds exactly when the subtree contains a MISSING node or an
  ERROR/`_ERROR` node *that has children*. -/
  theorem cost_pos_iff (lang : Lang) : ∀ (t : Tree) (ps : Option Nat), Summarized lang t → shapeOK ps t = true →
      (errorCostOf t > 0 ↔ costlyErr t = true)
    | .mk d kids, ps, hs, hsh => by
      unfold Summarized at hs
      unfold shapeOK at hsh
      simp only [Bool.and_eq_true] at hsh
      unfold costlyErr errorCostOf
      simp only [Tree.data]
      by_cases hm : d.isMissing = true
      · simp [hm, ERROR_COST_PER_MISSING_TREE, ERROR_COST_PER_RECOVERY]
      · have hm' : d.isMissing = false := by simpa using hm
        simp only [hm', if_false, Bool.false_eq_true, Bool.false_or]
        cases hkk : kids with
        | nil =>
          have hl := hs.1 hkk
          simp [hl.1, costlyErrL]
        | cons c rest =>
          have hne : kids ≠ [] := by simp [hkk]
          have hemp : kids.isEmpty = false := by simp [hkk]
          have hn := hs.2.1 hne
          have he := summarize_errorCost_eq lang length_zero d kids
          rw [← hkk, hn.2.2.1, he]
          by_cases hsym : isErrSym d.symbol = true
          · have hpos := extent_cost_pos (loop lang d.symbol d.productionId kids 0 { padding := d.padding, size := length_zero }).size
            simp only [hsym, if_true, hemp, Bool.not_false, Bool.and_self, Bool.true_or, iff_true]
            omega
          · have hsym' : isErrSym d.symbol = false := by simpa using hsym
            have hk := sumErr_pos_iff lang kids d.symbol hs.2.2 hsh.2 hsym'
            simp only [hsym', if_false, Bool.false_eq_true, Bool.false_and, Bool.false_or]
            exact hk
  theorem sumErr_pos_iff (lang : Lang) : ∀ (kids : List Tree) (sym : Nat), SummarizedL lang kids →
      shapeOKL (some sym) kids = true → isErrSym sym = false →
      (sumErr sym kids > 0 ↔ costlyErrL kids = true)
    | [], _, _, _, _ => by simp [sumErr, costlyErrL]
    | c :: rest, sym, hs, hsh, hsym => by
      unfold SummarizedL at hs
      unfold shapeOKL at hsh
      simp only [Bool.and_eq_true] at hsh
      have ihc := cost_pos_iff lang c (some sym) hs.1 hsh.1
      have ihr := sumErr_pos_iff lang rest sym hs.2 hsh.2 hsym
      have hrep : c.data.symbol ≠ symErrorRepeat := by
        obtain ⟨cd, ck⟩ := c
        have h := hsh.1
        unfold shapeOK at h
        simp only [Bool.and_eq_true, Bool.or_eq_true, bne_iff_ne, ne_eq] at h
        simp only [Tree.data]
        cases h.1.1.1 with
        | inl h1 => exact h1
        | inr h1 => simp [hsym] at h1
      have hce : childErrorCost sym c = errorCostOf c := by
        simp [childErrorCost, hrep, hsym]
      simp only [sumErr, costlyErrL, hce, Bool.or_eq_true]
      rw [← ihc, ← ihr]
      omega
end

/-- `has_error_iff_partial`: what the unchanged `ts_node_has_error` reports for ANY node of a
summarized, parser-shaped tree is "a MISSING node, or an ERROR/`_ERROR` node with children, at or
below" — which is the property's right-hand side except for childless ERROR nodes. -/
theorem has_error_iff_partial (lang : Lang) (t : Tree) (ps : Option Nat)
    (hs : Summarized lang t) (hsh : shapeOK ps t = true) : nodeHasError t = costlyErr t := by
  have h := cost_pos_iff lang t ps hs hsh
  unfold nodeHasError
  by_cases hc : costlyErr t = true
  · simp [hc, h.mpr hc]
  · have : ¬ (errorCostOf t > 0) := fun hp => hc (h.mp hp)
    simp [hc, this]

mutual
  /-- An ERROR or MISSING node at or below is detected by the cost, unless the node itself is a
  childless ERROR node. -/
  theorem contains_costly : ∀ (t : Tree) (ps : Option Nat), shapeOK ps t = true → containsErr t = true →
      costlyErr t = true ∨ (t.data.symbol = symError ∧ t.kids = [])
    | .mk d kids, ps, hsh, hc => by
      unfold shapeOK at hsh
      simp only [Bool.and_eq_true] at hsh
      unfold containsErr at hc
      unfold costlyErr
      simp only [Bool.or_eq_true, beq_iff_eq] at hc
      simp only [Tree.data, Tree.kids, Bool.or_eq_true, Bool.and_eq_true]
      rcases hc with (hm | he) | hl
      · exact .inl (.inl (.inl hm))
      · cases kids with
        | nil => exact .inr ⟨he, rfl⟩
        | cons c rest => exact .inl (.inl (.inr ⟨by simp [isErrSym, he], by simp⟩))
      · have := containsL_costly kids d.symbol hsh.2 hl
        rcases this with h1 | ⟨h2, h3⟩
        · exact .inl (.inr h1)
        · exact .inl (.inl (.inr ⟨h2, by cases kids with
            | nil => simp [containsErrL] at hl
            | cons c rest => simp⟩))
  theorem containsL_costly : ∀ (kids : List Tree) (sym : Nat), shapeOKL (some sym) kids = true →
      containsErrL kids = true → costlyErrL kids = true ∨ (isErrSym sym = true ∧ True)
    | [], _, _, h => by simp [containsErrL] at h
    | c :: rest, sym, hsh, h => by
      unfold shapeOKL at hsh
      simp only [Bool.and_eq_true] at hsh
      unfold containsErrL at h
      simp only [Bool.or_eq_true] at h
      unfold costlyErrL
      simp only [Bool.or_eq_true]
      rcases h with h | h
      · rcases contains_costly c (some sym) hsh.1 h with h1 | ⟨h2, h3⟩
        · exact .inl (.inl h1)
        · -- a childless ERROR child: the shape invariant makes the parent an error node
          obtain ⟨cd, ck⟩ := c
          have hh := hsh.1
          unfold shapeOK at hh
          simp only [Bool.and_eq_true, Bool.or_eq_true, Bool.not_eq_true'] at hh
          simp only [Tree.data, Tree.kids] at h2 h3
          have := hh.1.1.2
          subst h3
          simp [h2] at this
          exact .inr ⟨this, trivial⟩
      · rcases containsL_costly rest sym hsh.2 h with h1 | h2
        · exact .inl (.inr h1)
        · exact .inr h2
end

mutual
  /-- What the cost detects is an ERROR/MISSING at or below, unless the node itself is `_ERROR`. -/
  theorem costly_contains : ∀ (t : Tree) (ps : Option Nat), shapeOK ps t = true → costlyErr t = true →
      containsErr t = true ∨ t.data.symbol = symErrorRepeat
    | .mk d kids, ps, hsh, hc => by
      unfold shapeOK at hsh
      simp only [Bool.and_eq_true] at hsh
      unfold costlyErr at hc
      unfold containsErr
      simp only [Bool.or_eq_true, Bool.and_eq_true] at hc
      simp only [Tree.data, Bool.or_eq_true, beq_iff_eq]
      rcases hc with (hm | ⟨he, _⟩) | hl
      · exact .inl (.inl (.inl hm))
      · simp only [isErrSym, Bool.or_eq_true, beq_iff_eq] at he
        rcases he with he | he
        · exact .inl (.inl (.inr he))
        · exact .inr he
      · rcases costlyL_contains kids d.symbol hsh.2 hl with h1 | h2
        · exact .inl (.inr h1)
        · simp only [isErrSym, Bool.or_eq_true, beq_iff_eq] at h2
          rcases h2 with h2 | h2
          · exact .inl (.inl (.inr h2))
          · exact .inr h2
  theorem costlyL_contains : ∀ (kids : List Tree) (sym : Nat), shapeOKL (some sym) kids = true →
      costlyErrL kids = true → containsErrL kids = true ∨ isErrSym sym = true
    | [], _, _, h => by simp [costlyErrL] at h
    | c :: rest, sym, hsh, h => by
      unfold shapeOKL at hsh
      simp only [Bool.and_eq_true] at hsh
      unfold costlyErrL at h
      simp only [Bool.or_eq_true] at h
      unfold containsErrL
      simp only [Bool.or_eq_true]
      rcases h with h | h
      · rcases costly_contains c (some sym) hsh.1 h with h1 | h2
        · exact .inl (.inl h1)
        · obtain ⟨cd, ck⟩ := c
          have hh := hsh.1
          unfold shapeOK at hh
          simp only [Bool.and_eq_true, Bool.or_eq_true, bne_iff_ne, ne_eq] at hh
          simp only [Tree.data] at h2
          rcases hh.1.1.1 with h3 | h3
          · exact absurd h2 h3
          · exact .inr h3
      · rcases costlyL_contains rest sym hsh.2 h with h1 | h2
        · exact .inl (.inr h1)
        · exact .inr h2
end

/-- `has_error_fixed_iff`: with the repair of fixes/C02-has-error-leaf.diff
(`error_cost > 0 || is_error`) the property's clause holds in full for every node that the API can
return (the hidden `_ERROR` repeat is never a `TSNode`): has_error ⇔ an ERROR or MISSING node at or
below — for all languages and all summarized, parser-shaped trees. -/
theorem has_error_fixed_iff (lang : Lang) (t : Tree) (ps : Option Nat)
    (hs : Summarized lang t) (hsh : shapeOK ps t = true) (hrep : t.data.symbol ≠ symErrorRepeat) :
    nodeHasErrorFixed t = containsErr t := by
  have h1 := has_error_iff_partial lang t ps hs hsh
  unfold nodeHasError at h1
  unfold nodeHasErrorFixed
  rw [h1]
  by_cases hc : containsErr t = true
  · rcases contains_costly t ps hsh hc with h | ⟨h, _⟩
    · simp [hc, h]
    · simp [hc, h]
  · by_cases hk : costlyErr t = true
    · rcases costly_contains t ps hsh hk with h | h
      · exact absurd h hc
      · exact absurd h hrep
    · have hne : (t.data.symbol == symError) = false := by
        obtain ⟨d, kids⟩ := t
        unfold containsErr at hc
        simp only [Bool.or_eq_true, not_or, Bool.not_eq_true] at hc
        simpa [Tree.data] using hc.1.2
      simp [hc, hk, hne]

/-- The childless ERROR node of the confirmed defect (`ab ? cd (x` in grammar `lst`, node [3,4]),
exactly as dumped from the real tree. -/
def errorLeafWitness : Tree :=
  .mk { (default : NodeData) with symbol := symError, padding := ⟨1, ⟨0, 1⟩⟩, size := ⟨1, ⟨0, 1⟩⟩, lookahead := 4
                                  parseState := 6, visible := true, named := true
                                  fragileLeft := true, fragileRight := true, errorCost := 0, ext := "c63" } []

/-- `has_error_full_false` — the FULL clause ("has_error exactly when it or a descendant is ERROR
or MISSING") is false for the unchanged `ts_node_has_error`: the witness is summarized, has the
parser's shape below an `_ERROR` parent, is an ERROR node, and reports has_error = false.
OPEN (false on the unchanged code, true after the fix, see `has_error_fixed_iff`):
  ∀ lang t ps, Summarized lang t → shapeOK ps t → t.symbol ≠ _ERROR → nodeHasError t = containsErr t -/
theorem has_error_full_false :
    ∃ (lang : Lang) (t : Tree) (ps : Option Nat), Summarized lang t ∧ shapeOK ps t = true ∧
      t.data.symbol ≠ symErrorRepeat ∧ nodeHasError t = false ∧ containsErr t = true := by
  refine ⟨{}, errorLeafWitness, some symErrorRepeat, ?_, ?_, ?_, ?_, ?_⟩
  · unfold errorLeafWitness Summarized
    refine ⟨fun _ => ?_, fun h => absurd rfl h, ?_⟩
    · simp [LeafOK]
      decide
    · unfold SummarizedL; trivial
  · decide
  · decide
  · decide
  · decide

/-! ## The local progress argument behind termination: the error-skip loop of `ts_parser__lex` -/

/-- The loop invariant while an error is being skipped. -/
def Skipping (E : LexEnv) (s : LexState) : Prop :=
  s.errorMode = true ∧ s.skippedError = true ∧ s.cur = s.errorEnd ∧ s.cur ≤ E.len

/-- `lex_skip_progress`: while an error is being skipped (`Skipping`: error mode, an error started,
the lexer standing at the end of the skipped text, inside the document) every iteration of the
loop of `ts_parser__lex` either returns (token found / ERROR at EOF) or re-establishes the
invariant with the end of the skipped text at least one byte further. -/
theorem lex_skip_progress (E : LexEnv) (hE : LexEnvOK E) (start : Nat) (s : LexState) (h : Skipping E s) :
    match lexStep E start s with
    | .inr _ => True
    | .inl s' => Skipping E s' ∧ s.errorEnd < s'.errorEnd := by
  obtain ⟨hm, hs, hc, hb⟩ := h
  have hf := hE.attempt_forward s.cur true
  have hbd := hE.attempt_bounded s.cur true hb
  unfold lexStep
  rw [hm]
  by_cases hfound : (E.attempt s.cur true).1 = true
  · simp [hfound]
  · simp only [hfound, Bool.false_eq_true, if_false, Bool.not_true, hs, if_true]
    by_cases heq : ((E.attempt s.cur true).2.1 == s.errorEnd) = true
    · simp only [heq, if_true]
      have heq' : (E.attempt s.cur true).2.1 = s.errorEnd := by simpa using heq
      by_cases heof : (E.attempt s.cur true).2.1 ≥ E.len
      · simp [heof]
      · simp only [heof, if_false]
        have hp := hE.advance_progress (E.attempt s.cur true).2.1 (by omega)
        refine ⟨⟨rfl, rfl, rfl, hp.2⟩, ?_⟩
        show s.errorEnd < E.advance (E.attempt s.cur true).2.1
        omega
    · simp only [heq, Bool.false_eq_true, if_false]
      have hne : (E.attempt s.cur true).2.1 ≠ s.errorEnd := by simpa using heq
      refine ⟨⟨rfl, rfl, rfl, hbd⟩, ?_⟩
      show s.errorEnd < (E.attempt s.cur true).2.1
      omega

/-- Entering the skip: from error mode without a started error, one failed round either returns
or establishes `Skipping`. -/
theorem lex_skip_enter (E : LexEnv) (hE : LexEnvOK E) (start : Nat) (s : LexState)
    (hm : s.errorMode = true) (hs : s.skippedError = false) (hb : s.cur ≤ E.len) :
    match lexStep E start s with
    | .inr _ => True
    | .inl s' => Skipping E s' := by
  have hf := hE.attempt_forward s.cur true
  have hbd := hE.attempt_bounded s.cur true hb
  have hst := hE.start_between s.cur true
  unfold lexStep
  rw [hm]
  by_cases hfound : (E.attempt s.cur true).1 = true
  · simp [hfound]
  · simp only [hfound, Bool.false_eq_true, if_false, Bool.not_true, hs]
    by_cases heq : ((E.attempt s.cur true).2.1 == (E.attempt s.cur true).2.2) = true
    · simp only [heq, if_true]
      by_cases heof : (E.attempt s.cur true).2.1 ≥ E.len
      · simp [heof]
      · simp only [heof, if_false]
        have hp := hE.advance_progress (E.attempt s.cur true).2.1 (by omega)
        exact ⟨rfl, rfl, rfl, hp.2⟩
    · simp only [heq, Bool.false_eq_true, if_false]
      exact ⟨rfl, rfl, rfl, hbd⟩

/-- Once skipping, the loop returns within `len − errorEnd + 1` further iterations. -/
theorem lexLoop_skipping_terminates (E : LexEnv) (hE : LexEnvOK E) (start : Nat) :
    ∀ (fuel : Nat) (s : LexState), Skipping E s → E.len - s.errorEnd < fuel → (lexLoop E start fuel s).isSome = true
  | 0, s, _, hf => by omega
  | fuel + 1, s, h, hf => by
    have hp := lex_skip_progress E hE start s h
    unfold lexLoop
    cases hstep : lexStep E start s with
    | inr r => simp
    | inl s' =>
      rw [hstep] at hp
      simp only at hp ⊢
      have hle : s'.errorEnd ≤ E.len := by rw [← hp.1.2.2.1]; exact hp.1.2.2.2
      exact lexLoop_skipping_terminates E hE start fuel s' hp.1 (by omega)

/-- `lex_terminates`: from the initial state (normal mode at `start ≤ len`) the loop of
`ts_parser__lex` returns after at most `len − start + 4` iterations, whatever the two lexers do,
as long as they only move forward within the document and skipping a character consumes ≥ 1 byte. -/
theorem lex_terminates (E : LexEnv) (hE : LexEnvOK E) (start : Nat) (hstart : start ≤ E.len) (errorMode : Bool) :
    (lexLoop E start (E.len - start + 4) { errorMode := errorMode, skippedError := false, cur := start }).isSome = true := by
  -- at most one round in normal mode, one round entering the skip, then the skipping bound
  have enter : ∀ (fuel : Nat), E.len - start + 2 ≤ fuel →
      (lexLoop E start (fuel + 1) { errorMode := true, skippedError := false, cur := start }).isSome = true := by
    intro fuel hfuel
    have he := lex_skip_enter E hE start { errorMode := true, skippedError := false, cur := start } rfl rfl hstart
    unfold lexLoop
    cases hstep : lexStep E start { errorMode := true, skippedError := false, cur := start } with
    | inr r => simp
    | inl s' =>
      rw [hstep] at he
      simp only at he ⊢
      -- errorEnd of the new state is ≥ start
      have hge : start ≤ s'.errorEnd := by
        have hf := hE.attempt_forward start true
        have hst := hE.start_between start true
        unfold lexStep at hstep
        simp only [Bool.not_true, Bool.false_eq_true, if_false] at hstep
        split at hstep
        · simp at hstep
        · split at hstep
          · split at hstep
            · simp at hstep
            · have hp := hE.advance_progress (E.attempt start true).2.1 (by omega)
              simp only [Sum.inl.injEq] at hstep
              rw [← hstep]; simp only; omega
          · simp only [Sum.inl.injEq] at hstep
            rw [← hstep]; simp only; omega
      exact lexLoop_skipping_terminates E hE start fuel s' he (by omega)
  cases errorMode with
  | true =>
    have := enter (E.len - start + 3) (by omega)
    simpa using this
  | false =>
    unfold lexLoop
    cases hstep : lexStep E start { errorMode := false, skippedError := false, cur := start } with
    | inr r => simp
    | inl s' =>
      simp only
      have hs' : s' = { errorMode := true, skippedError := false, cur := start } := by
        unfold lexStep at hstep
        simp only [Bool.not_false, if_true] at hstep
        split at hstep
        · simp at hstep
        · simp only [Sum.inl.injEq] at hstep
          exact hstep.symm
      rw [hs']
      exact enter (E.len - start + 2) (by omega)


/-- Non-vacuity of `LexEnvOK`: a lexer that never finds a token and skips byte by byte. -/
example : LexEnvOK { len := 5, attempt := fun p _ => (false, p, p), advance := fun p => p + 1 } :=
  ⟨fun _ _ => Nat.le_refl _, fun _ _ h => h, fun _ _ => ⟨Nat.le_refl _, Nat.le_refl _⟩, fun p h => ⟨Nat.lt_succ_self p, h⟩⟩
example : lexLoop { len := 5, attempt := fun p _ => (false, p, p), advance := fun p => p + 1 } 2 (5 - 2 + 4)
    { errorMode := false, skippedError := false, cur := 2 } = some (.errorAtEof 2 5) := by decide

/-! ## Non-vacuity: a two-level tree built by the port satisfies the hypotheses -/

/-- A leaf whose padding is a newline and whose content is `ab` spells `\nab`; its start is row 1. -/
example : Yields (.mk { (default : NodeData) with padding := ⟨1, ⟨1, 0⟩⟩, size := ⟨2, ⟨0, 2⟩⟩ } []) ([10] ++ [97, 98]) :=
  Yields.leaf _ [10] [97, 98] (by decide) (by decide)


/-- A tiny language: symbol 1 = visible named token, 2 = visible named rule, 3 = hidden rule. -/
def demoLang : Lang :=
  { symbolCount := 4, tokenCount := 2
    syms := #[{ name := "end" }, { visible := true, named := true, pub := 1, name := "tok" },
              { visible := true, named := true, pub := 2, name := "rule" }, { pub := 3, name := "_hidden" }] }

def demoLeaf (pad size : Nat) : Tree :=
  newLeaf demoLang 1 ⟨pad, ⟨0, pad⟩⟩ ⟨size, ⟨0, size⟩⟩ 1 1 false false false

def demoTree : Tree :=
  newNode demoLang 2 [demoLeaf 0 2, newNode demoLang 3 [demoLeaf 1 1, newMissingLeaf demoLang 1 0 ⟨1, ⟨0, 1⟩⟩ 0] 0, demoLeaf 2 3] 0

example : shapeOK none demoTree = true := by decide
example : nodeHasError demoTree = true ∧ costlyErr demoTree = true ∧ containsErr demoTree = true := by decide
example : (enumChildren demoLang demoTree).length = 4 ∧ demoTree.data.visibleChildCount = 4 ∧
    demoTree.data.visibleDescendantCount = 4 ∧ demoTree.data.size.bytes = 10 := by decide
example : layoutEnd demoTree.kids length_zero = length_add (length_add length_zero demoTree.data.padding) demoTree.data.size := by decide

end TsVerif.C02
