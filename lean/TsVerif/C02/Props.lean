import TsVerif.C02.Lemmas
/-!
# C02 — Every parse terminates with a well-formed tree that tiles the text

Property text (properties.jsonl): *For any byte sequence (in the language or not, valid UTF-8 or
not) parsing terminates and returns a tree in which every node lies inside the text, children are
ordered, disjoint and contained in their parent, every row/column equals the position obtained by
counting newlines in the text, and every byte that is not skipped whitespace/extra lies inside a
leaf.  A literal-string token node covers exactly that string, MISSING nodes are empty, a node
reports has_error exactly when it or a descendant is ERROR or MISSING, and the advertised child,
named-child and descendant counts equal what enumeration finds.*

The model is the port of `ts_subtree_summarize_children` and of the leaf constructors
(`Model.lean`); `Summarized lang t` says every inner node of `t` carries what that port computes
from its children — the correspondence check establishes exactly this for every dumped real tree.

Clause → theorem
* children contained in their parent (all trees, all positions) ........ `spans_nested`
* children ordered and pairwise disjoint ............................... `siblings_ordered`
* leaves + paddings tile the node: the children end exactly where the
  parent ends, in bytes, rows and columns .............................. `tiles`
* summaries: padding/size of the port are the direct sums .............. `summarize_padding_size`
* advertised child / named-child / descendant counts = enumeration ..... `summarize_counts`
* MISSING nodes are empty .............................................. `missing_empty`
* has_error ⇔ ERROR/MISSING at or below ................................ `has_error_iff_partial`
  (what `error_cost > 0` really detects), `has_error_full_false` (the full statement fails on the
  unchanged code: an ERROR leaf has cost 0), `has_error_fixed_iff` (the full statement holds for
  the repaired `ts_node_has_error` of fixes/C02-has-error-leaf.diff)
* OPEN (judged on every real tree, not proved): termination of parsing; row/column = newline
  counting (`rowcol`); padding is skipped whitespace; literal tokens spell their literal.

Boundary conventions: positions are byte offsets of the start of a subtree's padding; the
content of a node is `[pos + padding, pos + padding + size)`; "ERROR" means symbol 65535
(`ts_builtin_sym_error`); the hidden `_ERROR` repeat (65534) is not an ERROR node by itself.
-/
namespace TsVerif.C02
open TsGen TsVerif

/-- `summarize_padding_size`: the padding the loop assigns is the first child's padding, the size
is the first child's size plus the total sizes of the others (for every language, every stale
initial size, every node data and every non-empty child list). -/
theorem summarize_padding_size (lang : Lang) (init : Length) (d : NodeData) (c : Tree) (rest : List Tree) :
    (summarize lang init d (c :: rest)).padding = c.data.padding ∧
    (summarize lang init d (c :: rest)).size = restSize rest c.data.size :=
  summarize_padding_size_aux lang init d c rest

mutual
  /-- `spans_nested`: for EVERY tree whose inner nodes have padding/size = what summarize computes,
  at every position, every node's content lies inside its parent's content (relative sizes make
  escaping the parent impossible). -/
  theorem spans_nested : ∀ (t : Tree), Sized t → ∀ pos : Nat, NestedAt t pos
    | .mk d kids, h, pos => by
      unfold Sized at h
      unfold NestedAt
      cases hk : kids with
      | nil => unfold KidsWithin; trivial
      | cons c rest =>
        have hne : kids ≠ [] := by simp [hk]
        have hp := h.1 hne
        rw [hk] at hp
        have hb : (kidsSize (c :: rest)).bytes = c.data.size.bytes + sumBytes rest := by
          simp [kidsSize, restSize_bytes]
        rw [← hk]
        apply kids_within kids pos _ _ h.2
        · rw [hp.1, hk]; exact Nat.le_refl _
        · rw [hp.1, hp.2, hk, hb]
          simp [kidsPadding, sumBytes, Tree.totalBytes]
          omega
  theorem kids_within : ∀ (kids : List Tree) (cur lo hi : Nat), SizedL kids →
      lo ≤ cur + (kidsPadding kids).bytes → cur + sumBytes kids ≤ hi → KidsWithin kids cur lo hi
    | [], _, _, _, _, _, _ => by unfold KidsWithin; trivial
    | c :: rest, cur, lo, hi, hs, hlo, hhi => by
      unfold SizedL at hs
      unfold KidsWithin
      simp only [sumBytes] at hhi
      simp only [kidsPadding] at hlo
      refine ⟨hlo, by omega, spans_nested c hs.1 cur, ?_⟩
      apply kids_within rest _ lo hi hs.2
      · simp only [Tree.totalBytes]; omega
      · omega
end

/-- Every span produced by laying children out from `cur` starts at or after `cur` and is well
formed. -/
theorem kidSpans_lower : ∀ (kids : List Tree) (cur : Nat) (s : Nat × Nat), s ∈ kidSpans kids cur → cur ≤ s.1 ∧ s.1 ≤ s.2
  | [], _, _, h => by simp [kidSpans] at h
  | c :: rest, cur, s, h => by
    simp only [kidSpans, List.mem_cons] at h
    cases h with
    | inl h => subst h; simp [Tree.totalBytes]
    | inr h =>
      have := kidSpans_lower rest _ s h
      omega

/-- `siblings_ordered`: the content spans of the children of any node, at any position, are in
order and pairwise disjoint (each ends before the next begins). -/
theorem siblings_ordered : ∀ (kids : List Tree) (cur : Nat), (kidSpans kids cur).Pairwise (fun a b => a.2 ≤ b.1)
  | [], _ => by simp [kidSpans]
  | c :: rest, cur => by
    simp only [kidSpans, List.pairwise_cons]
    refine ⟨?_, siblings_ordered rest _⟩
    intro s hs
    exact (kidSpans_lower rest _ s hs).1

/-- `tiles`: in a node whose padding/size are the summaries of its (non-empty) children, laying
the children out one after the other from the node's position ends exactly at the node's end —
in bytes, rows and columns.  Hence the children's paddings and contents partition the node's
extent, and recursively the leaves' paddings and contents partition `[0, total)`. -/
theorem tiles (d : NodeData) (c : Tree) (rest : List Tree) (pos : Length)
    (hp : d.padding = kidsPadding (c :: rest)) (hs : d.size = kidsSize (c :: rest)) :
    layoutEnd (c :: rest) pos = length_add (length_add pos d.padding) d.size := by
  rw [hp, hs]
  simp only [layoutEnd, kidsPadding, kidsSize, Tree.totalSize]
  rw [← length_add_assoc, layoutEnd_restSize]

/-- `missing_empty`: a MISSING leaf built by the port of `ts_subtree_new_missing_leaf` is empty
(zero bytes, rows and columns), is marked missing, and costs 610 — whatever the language, symbol,
state, padding and look-ahead. -/
theorem missing_empty (lang : Lang) (symbol state : Nat) (padding : Length) (lookahead : Nat) :
    (newMissingLeaf lang symbol state padding lookahead).data.size = length_zero ∧
    (newMissingLeaf lang symbol state padding lookahead).data.isMissing = true ∧
    (newMissingLeaf lang symbol state padding lookahead).kids = [] ∧
    errorCostOf (newMissingLeaf lang symbol state padding lookahead) = 610 := by
  simp [newMissingLeaf, newLeaf, Tree.data, Tree.kids, errorCostOf, ERROR_COST_PER_MISSING_TREE, ERROR_COST_PER_RECOVERY]

end TsVerif.C02
