import TsVerif.C02.Props
import TsVerif.C02.EditProps
import TsVerif.C02.BalanceProps
import TsVerif.C02.BalanceSumm
import TsVerif.C02.WidthProps
import TsVerif.C02.LexYields
import TsVerif.C02.ModelDriver
import TsVerif.C02.Round11
import TsVerif.C02.Round11b
#print axioms TsVerif.C02.summarize_padding_size
#print axioms TsVerif.C02.spans_nested
#print axioms TsVerif.C02.siblings_ordered
#print axioms TsVerif.C02.tiles
#print axioms TsVerif.C02.missing_empty
#print axioms TsVerif.C02.summarize_counts
#print axioms TsVerif.C02.cost_pos_iff
#print axioms TsVerif.C02.has_error_iff_partial
#print axioms TsVerif.C02.has_error_fixed_iff
#print axioms TsVerif.C02.has_error_full_false
#print axioms TsVerif.C02.extentOf_snoc
#print axioms TsVerif.C02.yields_total
#print axioms TsVerif.C02.rowcol_by_newlines
#print axioms TsVerif.C02.lex_skip_progress
#print axioms TsVerif.C02.lex_terminates
#print axioms TsVerif.C02.measure_eq_lengthOf
#print axioms TsVerif.C02.yields_cons
#print axioms TsVerif.C02.edit_preserves_summaries
#print axioms TsVerif.C02.edited_spans_nested
#print axioms TsVerif.C02.compress_leaves
#print axioms TsVerif.C02.balance_leaves
#print axioms TsVerif.C02.yields_iff_leaves
#print axioms TsVerif.C02.balance_yields
#print axioms TsVerif.C02.compress_yields
#print axioms TsVerif.C02.compressGo_sized
#print axioms TsVerif.C02.sized_same_leaves
#print axioms TsVerif.C02.compress_root_extent
#print axioms TsVerif.C02.balance_sized
#print axioms TsVerif.C02.balance_root_extent
#print axioms TsVerif.C02.nodeOK_summarize
#print axioms TsVerif.C02.compress_summarized
#print axioms TsVerif.C02.summarize_six_congr
#print axioms TsVerif.C02.nodeOK_congr
#print axioms TsVerif.C02.rotation_sums
#print axioms TsVerif.C02.compressGo_face
#print axioms TsVerif.C02.balanceNode_face
#print axioms TsVerif.C02.balance_summarized
#print axioms TsVerif.C02.enum_le_desc
#print axioms TsVerif.C02.desc_lt_size
#print axioms TsVerif.C02.counts_fit
#print axioms TsVerif.C02.counts_fit_32
#print axioms TsVerif.C02.decode_charOK
#print axioms TsVerif.C02.decodeAt_charOK
#print axioms TsVerif.C02.stepPos_measure
#print axioms TsVerif.C02.advance_posOK
#print axioms TsVerif.C02.start_LInv
#print axioms TsVerif.C02.lexer_position_is_measure
#print axioms TsVerif.C02.length_sub_measure
#print axioms TsVerif.C02.token_measures
#print axioms TsVerif.C02.lexed_leaf_yields
#print axioms TsVerif.C02.ModelDriver.pushReduced_leaves
#print axioms TsVerif.C02.ModelDriver.step_leaves
#print axioms TsVerif.C02.ModelDriver.run_leaves
#print axioms TsVerif.C02.ModelDriver.model_tree_tiles
#print axioms TsVerif.C02.ModelDriver.model_halts
#print axioms TsVerif.C02.ModelDriver.model_parse_halted
#print axioms TsVerif.C02.newNode_sized
#print axioms TsVerif.C02.newNode_yields
#print axioms TsVerif.C02.reduce_tiles
#print axioms TsVerif.C02.step_tiles
#print axioms TsVerif.C02.run_tiles
#print axioms TsVerif.C02.run_consumed
#print axioms TsVerif.C02.run_rowcol
#print axioms TsVerif.C02.run_root_rowcol
#print axioms TsVerif.C02.shiftLexed_ok
#print axioms TsVerif.C02.newLeaf_shift_ok
#print axioms TsVerif.C02.newMissingLeaf_shift_ok
#print axioms TsVerif.C02.newErrorLeaf_shift_ok
#print axioms TsVerif.C02.accept_tiles
#print axioms TsVerif.C02.parse_tiles
#print axioms TsVerif.C02.newLeaf_inline_symbol_lt
#print axioms TsVerif.C02.newLeaf_inline_symbol_survives_u8
#print axioms TsVerif.C02.newLeaf_wide_symbol_on_heap
#print axioms TsVerif.C02.newMissingLeaf_inline_symbol_lt
