import TsVerif.C02.Props
import TsVerif.C02.Balance
/-!
C02: balancing never moves text.  For EVERY tree (no hypothesis): `ts_subtree_compress` and
`ts_parser__balance_subtree` keep the sequence of leaves (`compress_leaves`, `balance_leaves`), hence
the byte strings the tree spells (`balance_yields`, through `yields_iff_leaves`).  For every `Sized`
tree they keep `Sized` and the root's padding and size (`balance_sized`, `balance_root_extent`) —
although the driver loop does not summarize a parent again after rebalancing its children.
`ts_subtree_compress` keeps `Summarized` (`compress_summarized`; summarizing is idempotent,
`nodeOK_summarize`).

OPEN: `Summarized (balance t)` for the whole driver loop.  It needs that a rebalanced child shows its
parent the same error cost and visible / named / descendant counts as before, which holds only when
the rotated nodes are hidden, not extra and their productions alias nothing (true for the auxiliary
repeat symbols the generator emits, not for arbitrary trees); it is decided on every real tree by the
correspondence check (`Summarized` of every dumped tree, all of them balanced).
-/
open TsGen TsVerif
namespace TsVerif.C02

theorem leaves_node (d : NodeData) (kids : List Tree) (h : kids ≠ []) : leaves (.mk d kids) = leavesL kids := by
  cases kids with
  | nil => exact absurd rfl h
  | cons c rest => simp [leaves]

theorem leavesL_append : ∀ (a b : List Tree), leavesL (a ++ b) = leavesL a ++ leavesL b
  | [], b => by simp [leavesL]
  | c :: a, b => by simp [leavesL, leavesL_append a b]

theorem leaves_resummarize (lang : Lang) (t : Tree) : leaves (resummarize lang t) = leaves t := by
  obtain ⟨d, kids⟩ := t
  cases kids with
  | nil => simp [resummarize]
  | cons c rest => simp [resummarize, leaves]


theorem resummarize_kids (lang : Lang) (t : Tree) : (resummarize lang t).kids = t.kids := by
  obtain ⟨d, kids⟩ := t; cases kids <;> simp [resummarize, Tree.kids]

theorem leavesL_resummarizeLast (lang : Lang) : ∀ (l : List Tree), leavesL (resummarizeLast lang l) = leavesL l
  | [] => rfl
  | [c] => by simp [resummarizeLast, leavesL, leaves_resummarize]
  | c :: c' :: rest => by
    have := leavesL_resummarizeLast lang (c' :: rest)
    simp only [resummarizeLast, leavesL] at this ⊢
    rw [this]

theorem resummarizeLast_ne_nil (lang : Lang) : ∀ (l : List Tree), l ≠ [] → resummarizeLast lang l ≠ []
  | [], h => absurd rfl h
  | [c], _ => by simp [resummarizeLast]
  | c :: c' :: rest, _ => by simp [resummarizeLast]

theorem leaves_data_irrel (d d' : NodeData) (kids : List Tree) (h : kids ≠ []) : leaves (.mk d kids) = leaves (.mk d' kids) := by
  rw [leaves_node d kids h, leaves_node d' kids h]

theorem dropLast_append_getLast {α : Type} : ∀ (l : List α) (x : α), l.getLast? = some x → l.dropLast ++ [x] = l
  | [], _, h => by simp at h
  | [a], x, h => by simp at h; simp [h]
  | a :: b :: rest, x, h => by
    have : (b :: rest).getLast? = some x := by simpa [List.getLast?_cons_cons] using h
    simp [List.dropLast, dropLast_append_getLast (b :: rest) x this]

/-- **compress_leaves.**  For every tree, every count and symbol, the rotations of
`ts_subtree_compress` keep the sequence of leaves (the same leaf nodes in the same order): no text
moves, nothing is lost or duplicated. -/
theorem compressGo_leaves (lang : Lang) (sym : Nat) : ∀ (i : Nat) (t : Tree), leaves (compressGo lang sym i t) = leaves t
  | 0, _ => rfl
  | i + 1, .mk d kids => by
    unfold compressGo
    split
    · rfl
    · cases kids with
      | nil => rfl
      | cons c ts =>
        obtain ⟨cd, ckids⟩ := c
        simp only
        split
        · rfl
        · cases ckids with
          | nil => rfl
          | cons g cs =>
            obtain ⟨gd, gkids⟩ := g
            simp only
            split
            · rfl
            · cases hgl : gkids.getLast? with
              | none => rfl
              | some gp =>
                simp only
                have hdl := dropLast_append_getLast gkids gp hgl
                -- names
                generalize hc' : resummarize lang (.mk cd (gp :: cs)) = child'
                generalize hg' : resummarize lang (.mk gd (gkids.dropLast ++ [child'])) = grandchild'
                have ih := compressGo_leaves lang sym i grandchild'
                generalize hg2 : compressGo lang sym i grandchild' = g2 at ih
                have hlc : leaves child' = leaves gp ++ leavesL cs := by
                  rw [← hc', leaves_resummarize, leaves_node _ _ (by simp)]; simp [leavesL]
                have hlg : leaves grandchild' = leavesL gkids ++ leavesL cs := by
                  rw [← hg', leaves_resummarize, leaves_node _ _ (by simp), leavesL_append]
                  simp only [leavesL, List.append_nil, hlc]
                  rw [← List.append_assoc]
                  congr 1
                  conv => rhs; rw [← hdl]
                  rw [leavesL_append]; simp [leavesL]
                -- g2 has children (it has the leaves of a node with children … or is a leaf with the same leaves)
                have hg3 : leaves (resummarize lang (.mk g2.data (resummarizeLast lang g2.kids))) = leaves g2 := by
                  rw [leaves_resummarize]
                  obtain ⟨g2d, g2k⟩ := g2
                  cases g2k with
                  | nil => simp [resummarizeLast, Tree.data, Tree.kids]
                  | cons a b =>
                    rw [leaves_node _ _ (resummarizeLast_ne_nil lang _ (by simp [Tree.kids])), leaves_node _ _ (by simp)]
                    simp only [Tree.kids]
                    exact leavesL_resummarizeLast lang (a :: b)
                rw [leaves_resummarize, leaves_node _ _ (by simp), leaves_node _ _ (by simp)]
                simp only [leavesL]
                rw [hg3, ih, hlg, leaves_node _ _ (by simp)]
                simp only [leavesL]
                have hgne : gkids ≠ [] := by intro h0; subst h0; simp at hgl
                rw [leaves_node _ _ hgne]

theorem compress_leaves (lang : Lang) (count : Nat) (t : Tree) : leaves (compress lang count t) = leaves t :=
  compressGo_leaves lang _ count t


theorem foldl_compress_leaves (lang : Lang) : ∀ (l : List Nat) (t : Tree),
    leaves (l.foldl (fun acc i => compress lang i acc) t) = leaves t
  | [], _ => rfl
  | i :: l, t => by simp only [List.foldl]; rw [foldl_compress_leaves lang l, compress_leaves]

theorem balanceNode_leaves (lang : Lang) (t : Tree) : leaves (balanceNode lang t) = leaves t := by
  unfold balanceNode
  split
  · split
    · split
      · exact foldl_compress_leaves lang _ t
      · rfl
    · rfl
  · rfl

mutual
  /-- **balance_leaves.**  `ts_parser__balance_subtree` keeps the leaf sequence of every tree. -/
  theorem balance_leaves (lang : Lang) : ∀ (f : Nat) (t : Tree), leaves (balance lang f t) = leaves t
    | 0, t => by unfold balance; rfl
    | f + 1, t => by
      unfold balance
      split
      · rfl
      · have hb := balanceNode_leaves lang t
        cases hbn : balanceNode lang t with
        | mk d kids =>
          rw [hbn] at hb
          simp only
          cases kids with
          | nil => simpa [balanceL] using hb
          | cons c rest =>
            rw [← hb, leaves_node _ _ (by simp [balanceL]), leaves_node _ _ (by simp)]
            exact balanceL_leaves lang f (c :: rest)
  theorem balanceL_leaves (lang : Lang) : ∀ (f : Nat) (l : List Tree), leavesL (balanceL lang f l) = leavesL l
    | f, [] => by unfold balanceL; rfl
    | f, c :: rest => by
      simp only [balanceL, leavesL]
      rw [balance_leaves lang f c, balanceL_leaves lang f rest]
end

/-! ## The yield is a function of the leaf sequence -/

theorem yieldsL_append : ∀ (a b : List Tree) (s : List Nat),
    YieldsL (a ++ b) s ↔ ∃ s1 s2, s = s1 ++ s2 ∧ YieldsL a s1 ∧ YieldsL b s2
  | [], b, s => by
    constructor
    · intro h; exact ⟨[], s, rfl, .nil, h⟩
    · rintro ⟨s1, s2, hs, h1, h2⟩
      cases h1
      simpa [hs] using h2
  | c :: a, b, s => by
    constructor
    · intro h
      cases h with
      | cons _ _ s1 s2 hc hr =>
        obtain ⟨t1, t2, ht, ha, hb⟩ := (yieldsL_append a b s2).mp hr
        exact ⟨s1 ++ t1, t2, by simp [ht], .cons c a s1 t1 hc ha, hb⟩
    · rintro ⟨s1, s2, hs, h1, h2⟩
      cases h1 with
      | cons _ _ u1 u2 hc hr =>
        have := (yieldsL_append a b (u2 ++ s2)).mpr ⟨u2, s2, rfl, hr, h2⟩
        have h3 := YieldsL.cons c (a ++ b) u1 (u2 ++ s2) hc this
        simpa [hs, List.append_assoc] using h3

mutual
  /-- A tree spells `s` iff its leaf sequence does. -/
  theorem yields_iff_leaves : ∀ (t : Tree) (s : List Nat), Yields t s ↔ YieldsL (leaves t) s
    | .mk d [], s => by
      simp only [leaves]
      constructor
      · intro h
        have := YieldsL.cons (.mk d []) [] s [] h .nil
        simpa using this
      · intro h
        cases h with
        | cons _ _ s1 s2 hc hr => cases hr; simpa using hc
    | .mk d (c :: rest), s => by
      simp only [leaves]
      constructor
      · intro h
        cases h with
        | node _ _ _ _ hl => exact (yieldsL_iff_leaves (c :: rest) s).mp hl
      · intro h
        exact .node d c rest s ((yieldsL_iff_leaves (c :: rest) s).mpr h)
  theorem yieldsL_iff_leaves : ∀ (l : List Tree) (s : List Nat), YieldsL l s ↔ YieldsL (leavesL l) s
    | [], s => by simp [leavesL]
    | c :: rest, s => by
      simp only [leavesL]
      rw [yieldsL_append]
      constructor
      · intro h
        cases h with
        | cons _ _ s1 s2 hc hr =>
          exact ⟨s1, s2, rfl, (yields_iff_leaves c s1).mp hc, (yieldsL_iff_leaves rest s2).mp hr⟩
      · rintro ⟨s1, s2, hs, h1, h2⟩
        rw [hs]
        exact .cons c rest s1 s2 ((yields_iff_leaves c s1).mpr h1) ((yieldsL_iff_leaves rest s2).mpr h2)
end

/-- **balance_yields.**  Balancing never moves text: the balanced tree spells exactly the byte
strings the unbalanced one spells (`Yields`: every leaf's padding and size measure its piece). -/
theorem balance_yields (lang : Lang) (f : Nat) (t : Tree) (s : List Nat) : Yields (balance lang f t) s ↔ Yields t s := by
  rw [yields_iff_leaves, yields_iff_leaves, balance_leaves]

theorem compress_yields (lang : Lang) (count : Nat) (t : Tree) (s : List Nat) : Yields (compress lang count t) s ↔ Yields t s := by
  rw [yields_iff_leaves, yields_iff_leaves, compress_leaves]


/-! ## Geometry: `Sized` is kept, and the root's padding and size with it -/

theorem sized_mk (d : NodeData) (kids : List Tree) :
    Sized (.mk d kids) ↔ ((kids ≠ [] → d.padding = kidsPadding kids ∧ d.size = kidsSize kids) ∧ SizedL kids) := by
  constructor <;> intro h
  · unfold Sized at h; exact h
  · unfold Sized; exact h

theorem sizedL_cons (c : Tree) (rest : List Tree) : SizedL (c :: rest) ↔ (Sized c ∧ SizedL rest) := by
  constructor <;> intro h
  · unfold SizedL at h; exact h
  · unfold SizedL; exact h

theorem sizedL_append : ∀ (a b : List Tree), SizedL (a ++ b) ↔ (SizedL a ∧ SizedL b)
  | [], b => by simp [SizedL]
  | c :: a, b => by simp only [List.cons_append, sizedL_cons, sizedL_append a b, and_assoc]

theorem sizedL_nil : SizedL [] := by unfold SizedL; trivial

theorem sized_resummarize (lang : Lang) (d : NodeData) (kids : List Tree) (h : SizedL kids) (hleaf : kids = [] → Sized (.mk d [])) :
    Sized (resummarize lang (.mk d kids)) := by
  cases kids with
  | nil => simpa [resummarize] using hleaf rfl
  | cons c rest =>
    simp only [resummarize]
    rw [sized_mk]
    refine ⟨fun _ => ?_, h⟩
    have := summarize_padding_size lang length_zero d c rest
    simp only [kidsPadding, kidsSize]
    exact this

theorem sized_leaf (d : NodeData) : Sized (.mk d []) := by
  rw [sized_mk]; exact ⟨fun h => absurd rfl h, sizedL_nil⟩

theorem sizedL_dropLast : ∀ (l : List Tree), SizedL l → SizedL l.dropLast
  | [], h => by simpa using h
  | [a], _ => by simp [List.dropLast, sizedL_nil]
  | a :: b :: rest, h => by
    rw [sizedL_cons] at h
    simp only [List.dropLast]
    rw [sizedL_cons]
    exact ⟨h.1, sizedL_dropLast (b :: rest) h.2⟩

theorem sizedL_getLast : ∀ (l : List Tree) (x : Tree), SizedL l → l.getLast? = some x → Sized x
  | [], _, _, h => by simp at h
  | [a], x, hs, h => by simp at h; subst h; exact ((sizedL_cons a []).mp hs).1
  | a :: b :: rest, x, hs, h => by
    have : (b :: rest).getLast? = some x := by simpa [List.getLast?_cons_cons] using h
    exact sizedL_getLast (b :: rest) x ((sizedL_cons a _).mp hs).2 this

theorem sized_kids (t : Tree) (h : Sized t) : SizedL t.kids := by
  obtain ⟨d, k⟩ := t; rw [sized_mk] at h; exact h.2

theorem sizedL_resummarizeLast (lang : Lang) : ∀ (l : List Tree), SizedL l → SizedL (resummarizeLast lang l)
  | [], h => h
  | [c], h => by
    obtain ⟨d, k⟩ := c
    simp only [resummarizeLast]
    rw [sizedL_cons] at h ⊢
    exact ⟨sized_resummarize lang d k (sized_kids _ h.1) (fun _ => sized_leaf d), h.2⟩
  | c :: c' :: rest, h => by
    rw [sizedL_cons] at h
    simp only [resummarizeLast]
    rw [sizedL_cons]
    exact ⟨h.1, sizedL_resummarizeLast lang (c' :: rest) h.2⟩

/-- `ts_subtree_compress` keeps `Sized` (every node's padding and size are those of its children). -/
theorem compressGo_sized (lang : Lang) (sym : Nat) : ∀ (i : Nat) (t : Tree), Sized t → Sized (compressGo lang sym i t)
  | 0, _, h => h
  | i + 1, .mk d kids, h => by
    unfold compressGo
    split
    · exact h
    · cases kids with
      | nil => exact h
      | cons c ts =>
        obtain ⟨cd, ckids⟩ := c
        simp only
        split
        · exact h
        · cases ckids with
          | nil => exact h
          | cons g cs =>
            obtain ⟨gd, gkids⟩ := g
            simp only
            split
            · exact h
            · cases hgl : gkids.getLast? with
              | none => exact h
              | some gp =>
                simp only
                have hT := (sized_mk _ _).mp h
                have hC := (sized_mk _ _).mp ((sizedL_cons _ _).mp hT.2).1
                have hG := (sized_mk _ _).mp ((sizedL_cons _ _).mp hC.2).1
                have hts := ((sizedL_cons _ _).mp hT.2).2
                have hcs := ((sizedL_cons _ _).mp hC.2).2
                have hgp := sizedL_getLast gkids gp hG.2 hgl
                have hchild : Sized (resummarize lang (.mk cd (gp :: cs))) :=
                  sized_resummarize lang cd _ ((sizedL_cons _ _).mpr ⟨hgp, hcs⟩) (by intro h0; simp at h0)
                have hgrand : Sized (resummarize lang (.mk gd (gkids.dropLast ++ [resummarize lang (.mk cd (gp :: cs))]))) :=
                  sized_resummarize lang gd _
                    ((sizedL_append _ _).mpr ⟨sizedL_dropLast _ hG.2, (sizedL_cons _ _).mpr ⟨hchild, sizedL_nil⟩⟩) (by intro h0; simp at h0)
                have ih := compressGo_sized lang sym i _ hgrand
                generalize compressGo lang sym i (resummarize lang (.mk gd (gkids.dropLast ++ [resummarize lang (.mk cd (gp :: cs))]))) = g2 at ih
                have hg3 : Sized (resummarize lang (.mk g2.data (resummarizeLast lang g2.kids))) :=
                  sized_resummarize lang _ _ (sizedL_resummarizeLast lang _ (sized_kids _ ih)) (fun _ => sized_leaf _)
                exact sized_resummarize lang d _ ((sizedL_cons _ _).mpr ⟨hg3, hts⟩) (by intro h0; simp at h0)

theorem leaves_ne_nil : ∀ (t : Tree), leaves t ≠ []
  | .mk d [] => by simp [leaves]
  | .mk d (c :: rest) => by
    simp only [leaves, leavesL]
    intro h0
    exact leaves_ne_nil c (List.append_eq_nil_iff.mp h0).1

theorem restSize_shift : ∀ (ls : List Tree) (a s : Length), restSize ls (length_add a s) = length_add a (restSize ls s)
  | [], _, _ => rfl
  | c :: ls, a, s => by simp only [restSize]; rw [length_add_assoc, restSize_shift ls]

theorem restSize_append : ∀ (a b : List Tree) (s : Length), restSize (a ++ b) s = restSize b (restSize a s)
  | [], _, _ => rfl
  | c :: a, b, s => by simp only [List.cons_append, restSize]; exact restSize_append a b _

mutual
  /-- In a `Sized` tree the root's padding is the first leaf's and its size the sum over the leaves. -/
  theorem sized_root_by_leaves : ∀ (t : Tree), Sized t → ∀ (l : Tree) (ls : List Tree), leaves t = l :: ls →
      t.data.padding = l.data.padding ∧ t.data.size = restSize ls l.data.size
    | .mk d [], _, l, ls, hl => by
      simp only [leaves, List.cons.injEq] at hl
      obtain ⟨h1, h2⟩ := hl
      subst h1; subst h2
      exact ⟨rfl, rfl⟩
    | .mk d (c :: rest), h, l, ls, hl => by
      rw [sized_mk] at h
      have hp := h.1 (by simp)
      have hc := ((sizedL_cons _ _).mp h.2)
      simp only [leaves, leavesL] at hl
      cases hlc : leaves c with
      | nil => exact absurd hlc (leaves_ne_nil c)
      | cons l' lsc =>
        rw [hlc] at hl
        simp only [List.cons_append, List.cons.injEq] at hl
        obtain ⟨h1, h2⟩ := hl
        subst h1
        have ihc := sized_root_by_leaves c hc.1 l' lsc hlc
        simp only [kidsPadding, kidsSize] at hp
        show d.padding = l'.data.padding ∧ d.size = restSize ls l'.data.size
        refine ⟨by rw [hp.1]; exact ihc.1, ?_⟩
        rw [hp.2, ← h2, restSize_append, ← ihc.2]
        exact restSizeL_by_leaves rest hc.2 _
  theorem restSizeL_by_leaves : ∀ (l : List Tree), SizedL l → ∀ (s : Length), restSize l s = restSize (leavesL l) s
    | [], _, _ => rfl
    | c :: rest, h, s => by
      have hc := (sizedL_cons _ _).mp h
      simp only [restSize, leavesL]
      rw [restSize_append, ← restSizeL_by_leaves rest hc.2]
      congr 1
      cases hlc : leaves c with
      | nil => exact absurd hlc (leaves_ne_nil c)
      | cons l' lsc =>
        have ihc := sized_root_by_leaves c hc.1 l' lsc hlc
        simp only [restSize, Tree.totalSize]
        rw [ihc.1, ihc.2, ← length_add_assoc s, restSize_shift, length_add_assoc, restSize_shift]
end

/-- Two `Sized` trees with the same leaves have the same root padding and size. -/
theorem sized_same_leaves (t t' : Tree) (h : Sized t) (h' : Sized t') (hl : leaves t' = leaves t) :
    t'.data.padding = t.data.padding ∧ t'.data.size = t.data.size := by
  cases hlt : leaves t with
  | nil => exact absurd hlt (leaves_ne_nil t)
  | cons l ls =>
    have a := sized_root_by_leaves t h l ls hlt
    have b := sized_root_by_leaves t' h' l ls (by rw [hl, hlt])
    exact ⟨by rw [a.1, b.1], by rw [a.2, b.2]⟩


theorem compress_sized (lang : Lang) (count : Nat) (t : Tree) (h : Sized t) : Sized (compress lang count t) :=
  compressGo_sized lang _ count t h

/-- **compress_root_extent.**  A compressed `Sized` tree has the same padding and size as before. -/
theorem compress_root_extent (lang : Lang) (count : Nat) (t : Tree) (h : Sized t) :
    (compress lang count t).data.padding = t.data.padding ∧ (compress lang count t).data.size = t.data.size :=
  sized_same_leaves t _ h (compress_sized lang count t h) (compress_leaves lang count t)

theorem foldl_compress_sized (lang : Lang) : ∀ (l : List Nat) (t : Tree), Sized t →
    Sized (l.foldl (fun acc i => compress lang i acc) t)
  | [], _, h => h
  | i :: l, t, h => by simp only [List.foldl]; exact foldl_compress_sized lang l _ (compress_sized lang i t h)

theorem balanceNode_sized (lang : Lang) (t : Tree) (h : Sized t) : Sized (balanceNode lang t) := by
  unfold balanceNode
  split
  · split
    · split
      · exact foldl_compress_sized lang _ t h
      · exact h
    · exact h
  · exact h

mutual
  /-- **balance_sized.**  `ts_parser__balance_subtree` keeps `Sized`, although it does not summarize a
  parent again after its children were rebalanced: each child keeps its padding and size. -/
  theorem balance_sized (lang : Lang) : ∀ (f : Nat) (t : Tree), Sized t → Sized (balance lang f t)
    | 0, t, h => by unfold balance; exact h
    | f + 1, t, h => by
      unfold balance
      split
      · exact h
      · have hb := balanceNode_sized lang t h
        cases hbn : balanceNode lang t with
        | mk d kids =>
          rw [hbn] at hb
          simp only
          rw [sized_mk] at hb ⊢
          have hL := balanceL_sized lang f kids hb.2
          refine ⟨?_, hL.1⟩
          intro hne
          have hk : kids ≠ [] := by intro h0; subst h0; simp [balanceL] at hne
          have hp := hb.1 hk
          cases kids with
          | nil => exact absurd rfl hk
          | cons c rest =>
            simp only [balanceL, kidsPadding, kidsSize] at hp ⊢
            have hc := ((sizedL_cons _ _).mp hb.2)
            have hcs := sized_same_leaves c (balance lang f c) hc.1 (balance_sized lang f c hc.1) (balance_leaves lang f c)
            have hr := (balanceL_sized lang f rest hc.2).2
            rw [hcs.1, hcs.2, hr]
            exact hp
  theorem balanceL_sized (lang : Lang) : ∀ (f : Nat) (l : List Tree), SizedL l →
      SizedL (balanceL lang f l) ∧ ∀ s, restSize (balanceL lang f l) s = restSize l s
    | f, [], h => by unfold balanceL; exact ⟨h, fun _ => rfl⟩
    | f, c :: rest, h => by
      have hc := (sizedL_cons _ _).mp h
      have ih := balanceL_sized lang f rest hc.2
      have hb := balance_sized lang f c hc.1
      have hcs := sized_same_leaves c (balance lang f c) hc.1 hb (balance_leaves lang f c)
      simp only [balanceL]
      refine ⟨(sizedL_cons _ _).mpr ⟨hb, ih.1⟩, ?_⟩
      intro s
      simp only [restSize, Tree.totalSize]
      rw [hcs.1, hcs.2, ih.2]
end

/-- **balance_root_extent.**  Balancing changes neither the padding nor the size of the tree. -/
theorem balance_root_extent (lang : Lang) (f : Nat) (t : Tree) (h : Sized t) :
    (balance lang f t).data.padding = t.data.padding ∧ (balance lang f t).data.size = t.data.size :=
  sized_same_leaves t _ h (balance_sized lang f t h) (balance_leaves lang f t)


/-! ## `Summarized` is kept by `ts_subtree_compress` -/

theorem loop_init_padding (lang : Lang) (sym pid : Nat) (c : Tree) (rest : List Tree) (p1 p2 init : Length) :
    loop lang sym pid (c :: rest) 0 { padding := p1, size := init } =
      loop lang sym pid (c :: rest) 0 { padding := p2, size := init } := by
  simp only [loop]
  congr 1

/-- Summarizing is idempotent: a node that was just summarized satisfies `NodeOK`. -/
theorem nodeOK_summarize (lang : Lang) (d : NodeData) (c : Tree) (rest : List Tree) :
    NodeOK lang (summarize lang length_zero d (c :: rest)) (c :: rest) := by
  have hl := loop_init_padding lang d.symbol d.productionId c rest d.padding
    (summarize lang length_zero d (c :: rest)).padding length_zero
  unfold NodeOK
  have hsym : (summarize lang length_zero d (c :: rest)).symbol = d.symbol := rfl
  have hpid : (summarize lang length_zero d (c :: rest)).productionId = d.productionId := rfl
  refine ⟨?_, ?_, ?_, ?_, ?_, ?_⟩ <;>
    (conv => rhs; unfold summarize) <;> simp only [hsym, hpid, ← hl] <;> rfl


theorem summarized_mk (lang : Lang) (d : NodeData) (kids : List Tree) :
    Summarized lang (.mk d kids) ↔ ((kids = [] → LeafOK d) ∧ (kids ≠ [] → NodeOK lang d kids) ∧ SummarizedL lang kids) := by
  constructor <;> intro h
  · unfold Summarized at h; exact h
  · unfold Summarized; exact h

theorem summarizedL_cons (lang : Lang) (c : Tree) (rest : List Tree) :
    SummarizedL lang (c :: rest) ↔ (Summarized lang c ∧ SummarizedL lang rest) := by
  constructor <;> intro h
  · unfold SummarizedL at h; exact h
  · unfold SummarizedL; exact h

theorem summarizedL_nil (lang : Lang) : SummarizedL lang [] := by unfold SummarizedL; trivial

theorem summarizedL_append (lang : Lang) : ∀ (a b : List Tree), SummarizedL lang (a ++ b) ↔ (SummarizedL lang a ∧ SummarizedL lang b)
  | [], b => by simp [summarizedL_nil]
  | c :: a, b => by simp only [List.cons_append, summarizedL_cons, summarizedL_append lang a b, and_assoc]

theorem summarizedL_dropLast (lang : Lang) : ∀ (l : List Tree), SummarizedL lang l → SummarizedL lang l.dropLast
  | [], h => by simpa using h
  | [a], _ => by simp [List.dropLast, summarizedL_nil]
  | a :: b :: rest, h => by
    rw [summarizedL_cons] at h
    simp only [List.dropLast]
    rw [summarizedL_cons]
    exact ⟨h.1, summarizedL_dropLast lang (b :: rest) h.2⟩

theorem summarizedL_getLast (lang : Lang) : ∀ (l : List Tree) (x : Tree), SummarizedL lang l → l.getLast? = some x → Summarized lang x
  | [], _, _, h => by simp at h
  | [a], x, hs, h => by simp at h; subst h; exact ((summarizedL_cons lang a []).mp hs).1
  | a :: b :: rest, x, hs, h => by
    have : (b :: rest).getLast? = some x := by simpa [List.getLast?_cons_cons] using h
    exact summarizedL_getLast lang (b :: rest) x ((summarizedL_cons lang a _).mp hs).2 this

theorem summarized_kids' (lang : Lang) (t : Tree) (h : Summarized lang t) : SummarizedL lang t.kids := by
  obtain ⟨d, k⟩ := t; rw [summarized_mk] at h; exact h.2.2

theorem summarized_resummarize (lang : Lang) (d : NodeData) (kids : List Tree) (h : SummarizedL lang kids)
    (hleaf : kids = [] → Summarized lang (.mk d [])) : Summarized lang (resummarize lang (.mk d kids)) := by
  cases kids with
  | nil => simpa [resummarize] using hleaf rfl
  | cons c rest =>
    simp only [resummarize]
    rw [summarized_mk]
    exact ⟨fun h0 => by simp at h0, fun _ => nodeOK_summarize lang d c rest, h⟩

theorem summarizedL_resummarizeLast (lang : Lang) : ∀ (l : List Tree), SummarizedL lang l → SummarizedL lang (resummarizeLast lang l)
  | [], h => h
  | [c], h => by
    obtain ⟨d, k⟩ := c
    simp only [resummarizeLast]
    rw [summarizedL_cons] at h ⊢
    exact ⟨summarized_resummarize lang d k (summarized_kids' lang _ h.1) (fun h0 => by subst h0; exact h.1), h.2⟩
  | c :: c' :: rest, h => by
    rw [summarizedL_cons] at h
    simp only [resummarizeLast]
    rw [summarizedL_cons]
    exact ⟨h.1, summarizedL_resummarizeLast lang (c' :: rest) h.2⟩

/-- **compress_summarized.**  `ts_subtree_compress` turns a summarized tree (every inner node carries
the summaries of its children: sizes, error cost, visible / named child counts, descendant count) into
a summarized tree: every node whose children changed is summarized again after the last change. -/
theorem compressGo_summarized (lang : Lang) (sym : Nat) : ∀ (i : Nat) (t : Tree), Summarized lang t →
    Summarized lang (compressGo lang sym i t)
  | 0, _, h => h
  | i + 1, .mk d kids, h => by
    unfold compressGo
    split
    · exact h
    · cases kids with
      | nil => exact h
      | cons c ts =>
        obtain ⟨cd, ckids⟩ := c
        simp only
        split
        · exact h
        · cases ckids with
          | nil => exact h
          | cons g cs =>
            obtain ⟨gd, gkids⟩ := g
            simp only
            split
            · exact h
            · cases hgl : gkids.getLast? with
              | none => exact h
              | some gp =>
                simp only
                have hT := (summarized_mk lang _ _).mp h
                have hC := (summarized_mk lang _ _).mp ((summarizedL_cons lang _ _).mp hT.2.2).1
                have hG := (summarized_mk lang _ _).mp ((summarizedL_cons lang _ _).mp hC.2.2).1
                have hts := ((summarizedL_cons lang _ _).mp hT.2.2).2
                have hcs := ((summarizedL_cons lang _ _).mp hC.2.2).2
                have hgp := summarizedL_getLast lang gkids gp hG.2.2 hgl
                have hchild : Summarized lang (resummarize lang (.mk cd (gp :: cs))) :=
                  summarized_resummarize lang cd _ ((summarizedL_cons lang _ _).mpr ⟨hgp, hcs⟩) (by intro h0; simp at h0)
                have hgrand : Summarized lang (resummarize lang (.mk gd (gkids.dropLast ++ [resummarize lang (.mk cd (gp :: cs))]))) :=
                  summarized_resummarize lang gd _
                    ((summarizedL_append lang _ _).mpr ⟨summarizedL_dropLast lang _ hG.2.2,
                      (summarizedL_cons lang _ _).mpr ⟨hchild, summarizedL_nil lang⟩⟩) (by intro h0; simp at h0)
                have ih := compressGo_summarized lang sym i _ hgrand
                generalize compressGo lang sym i (resummarize lang (.mk gd (gkids.dropLast ++ [resummarize lang (.mk cd (gp :: cs))]))) = g2 at ih
                have hg3 : Summarized lang (resummarize lang (.mk g2.data (resummarizeLast lang g2.kids))) := by
                  apply summarized_resummarize lang _ _ (summarizedL_resummarizeLast lang _ (summarized_kids' lang _ ih))
                  intro h0
                  obtain ⟨g2d, g2k⟩ := g2
                  cases g2k with
                  | nil => simpa [Tree.data] using ih
                  | cons a b => exact absurd h0 (resummarizeLast_ne_nil lang _ (by simp [Tree.kids]))
                exact summarized_resummarize lang d _ ((summarizedL_cons lang _ _).mpr ⟨hg3, hts⟩) (by intro h0; simp at h0)

theorem compress_summarized (lang : Lang) (count : Nat) (t : Tree) (h : Summarized lang t) :
    Summarized lang (compress lang count t) := compressGo_summarized lang _ count t h


end TsVerif.C02
