import TsVerif.C02.Model
/-!
C02: port of the rebalancing of repeat chains — `ts_subtree_compress` (subtree.c) and the driver
loop `ts_parser__balance_subtree` (parser.c) — and the leaf sequence of a tree.  The theorems are in
BalanceProps.lean; the port is tied to the C code by running the REAL functions (unity build,
`harness/csrc/cunit_c02.c balance`) on deliberately unbalanced trees and comparing the dump of the
result, node by node and field by field, with the port applied to the dump of the input.
-/
open TsGen TsVerif
namespace TsVerif.C02

/-! ## Port of `ts_subtree_compress` and `ts_parser__balance_subtree` -/

/-- `ts_subtree_summarize_children(self, language)` applied to a node (the callers below only apply
it to nodes with children; a leaf is left alone). -/
def resummarize (lang : Lang) : Tree → Tree
  | .mk d [] => .mk d []
  | .mk d (c :: rest) => .mk (summarize lang length_zero d (c :: rest)) (c :: rest)

/-- Re-summarize the LAST child (`children(child)[child_count - 1]`). -/
def resummarizeLast (lang : Lang) : List Tree → List Tree
  | [] => []
  | [c] => [resummarize lang c]
  | c :: rest => c :: resummarizeLast lang rest

/-- `ts_subtree_compress(self, count, language, stack)` with `symbol = self.symbol`: up to `count`
rotations down the chain of first children.  One rotation at `tree = [child = [grandchild = [g₁ … gₚ],
c₂ … cₘ], t₂ … tₙ]` makes it `[grandchild' = [g₁ … gₚ₋₁, child' = [gₚ, c₂ … cₘ]], t₂ … tₙ]` and continues at
`grandchild'`; on the way back (`while (stack->size > initial)`) the last child of the first child, the
first child and the tree are re-summarized, innermost tree first.  The loop reads only symbol, child
count, ref count and the inline flag, none of which summarizing changes, so the port summarizes
`child'` and `grandchild'` before it continues instead of after (the values the C code leaves are
the same: every one of these nodes is summarized once more after the last change below it). -/
def compressGo (lang : Lang) (sym : Nat) : Nat → Tree → Tree
  | 0, t => t
  | i + 1, .mk d kids =>
    if d.refCount > 1 || kids.length < 2 then .mk d kids else
    match kids with
    | [] => .mk d kids
    | (.mk cd ckids) :: ts =>
      if cd.isInline || ckids.length < 2 || cd.refCount > 1 || cd.symbol != sym then .mk d kids else
      match ckids with
      | [] => .mk d kids
      | (.mk gd gkids) :: cs =>
        if gd.isInline || gkids.length < 2 || gd.refCount > 1 || gd.symbol != sym then .mk d kids else
        match gkids.getLast? with
        | none => .mk d kids
        | some gp =>
          let child' := resummarize lang (.mk cd (gp :: cs))
          let grandchild' := resummarize lang (.mk gd (gkids.dropLast ++ [child']))
          -- `tree = grandchild` : the loop continues there
          let g2 := compressGo lang sym i grandchild'
          -- pop: summarize children(child)[last], child, tree   (child = children(tree)[0] = g2)
          let g3 := resummarize lang (.mk g2.data (resummarizeLast lang g2.kids))
          resummarize lang (.mk d (g3 :: ts))

def compress (lang : Lang) (count : Nat) (t : Tree) : Tree := compressGo lang t.data.symbol count t

/-- `n/2, n/4, …, 1` : the counts of `for (i = n / 2; i > 0; i /= 2)`. -/
def halves : Nat → Nat → List Nat
  | 0, _ => []
  | f + 1, n => if n / 2 > 0 then (n / 2) :: halves f (n / 2) else []

/-- What `ts_parser__balance_subtree` does to one tree taken from its stack. -/
def balanceNode (lang : Lang) (t : Tree) : Tree :=
  if t.data.repeatDepth > 0 then
    match t.kids.head?, t.kids.getLast? with
    | some c1, some c2 =>
      if c1.data.repeatDepth > c2.data.repeatDepth then
        let n := c1.data.repeatDepth - c2.data.repeatDepth
        (halves n n).foldl (fun acc i => compress lang i acc) t
      else t
    | _, _ => t
  else t

mutual
  /-- `ts_parser__balance_subtree`: every tree with children and `ref_count == 1` reachable through
  such trees is treated by `balanceNode`, then its children are pushed (the parent is NOT summarized
  again afterwards). -/
  def balance (lang : Lang) : Nat → Tree → Tree
    | 0, t => t
    | f + 1, t =>
      if t.kids.isEmpty || t.data.refCount != 1 then t else
      match balanceNode lang t with
      | .mk d kids => .mk d (balanceL lang f kids)
  def balanceL (lang : Lang) : Nat → List Tree → List Tree
    | _, [] => []
    | f, c :: rest => balance lang f c :: balanceL lang f rest
end

/-- What a parent's summary reads of a child: padding, size, symbol, the extra / visible / named /
MISSING flags, error cost, visible / named child counts, descendant count, whether it has children. -/
def face (c : Tree) : Length × Length × Nat × Bool × Bool × Bool × Bool × Nat × Nat × Nat × Nat × Bool :=
  (c.data.padding, c.data.size, c.data.symbol, c.data.extra, c.data.visible, (c.data.visible && c.data.named), c.data.isMissing,
   c.data.errorCost, c.data.visibleChildCount, c.data.namedChildCount, c.data.visibleDescendantCount, decide (c.kids.length = 0))

/-- `face a = face b`, decided componentwise (for the driver). -/
def faceEq (a b : Tree) : Bool :=
  decide (a.data.padding = b.data.padding) && decide (a.data.size = b.data.size) && a.data.symbol == b.data.symbol &&
  a.data.extra == b.data.extra && a.data.visible == b.data.visible && (a.data.visible && a.data.named) == (b.data.visible && b.data.named) &&
  a.data.isMissing == b.data.isMissing && a.data.errorCost == b.data.errorCost && a.data.visibleChildCount == b.data.visibleChildCount &&
  a.data.namedChildCount == b.data.namedChildCount && a.data.visibleDescendantCount == b.data.visibleDescendantCount &&
  (decide (a.kids.length = 0) == decide (b.kids.length = 0))

/-! ## The hypothesis of `balance_summarized` (decidable; evaluated on every real rebalancing case) -/

/-- The production aliases nothing. -/
def aliasFree (lang : Lang) (pid : Nat) : Bool := pid == 0 || (lang.aliasSeqs.getD pid #[]).all (· == 0)

/-- What a rotated node must be for a rotation to leave the summaries of the nodes above unchanged:
hidden, not an extra, not MISSING, and its production aliases none of its children (the auxiliary
repeat symbols the generator emits are like that). -/
def rotP (lang : Lang) (d : NodeData) : Bool := !d.visible && !d.extra && !d.isMissing && aliasFree lang d.productionId

mutual
  /-- Every INNER node with symbol `sym` in the tree satisfies `rotP`. -/
  def allSym (lang : Lang) (sym : Nat) : Tree → Bool
    | .mk d kids => (d.symbol != sym || kids.isEmpty || rotP lang d) && allSymL lang sym kids
  def allSymL (lang : Lang) (sym : Nat) : List Tree → Bool
    | [] => true
    | c :: rest => allSym lang sym c && allSymL lang sym rest
end

/-- The nodes `ts_subtree_compress` may rotate in `t` (all have the symbol of `t`) are hidden,
non-extra, alias-free, and the symbol is not an error symbol. -/
def rotOK (lang : Lang) (t : Tree) : Bool := !isErrSym t.data.symbol && allSym lang t.data.symbol t

/-- Does `balanceNode` call `ts_subtree_compress` on this tree? -/
def compressesAt (t : Tree) : Bool :=
  decide (t.data.repeatDepth > 0) &&
    (match t.kids.head?, t.kids.getLast? with
     | some c1, some c2 => decide (c1.data.repeatDepth > c2.data.repeatDepth)
     | _, _ => false)

mutual
  /-- The hypothesis of `balance_summarized`, checked ALONG the computation of `balance`: wherever the
  driver loop calls `ts_subtree_compress` (on the tree as it is at that moment), the rotated nodes are
  hidden, non-extra and alias-free (`rotOK`). -/
  def balanceOK (lang : Lang) : Nat → Tree → Bool
    | 0, _ => true
    | f + 1, t =>
      if t.kids.isEmpty || t.data.refCount != 1 then true else
      (!compressesAt t || rotOK lang t) && balanceOKL lang f (balanceNode lang t).kids
  def balanceOKL (lang : Lang) : Nat → List Tree → Bool
    | _, [] => true
    | f, c :: rest => balanceOK lang f c && balanceOKL lang f rest
end

mutual
  /-- Why `allSym` fails (for the evidence): numbers of inner nodes of the symbol that are visible,
  extra, MISSING, or whose production has aliases. -/
  def rotWhy (lang : Lang) (sym : Nat) : Tree → Nat × Nat × Nat × Nat
    | .mk d kids =>
      let r := rotWhyL lang sym kids
      if d.symbol == sym && !kids.isEmpty then
        (r.1 + (if d.visible then 1 else 0), r.2.1 + (if d.extra then 1 else 0), r.2.2.1 + (if d.isMissing then 1 else 0),
         r.2.2.2 + (if aliasFree lang d.productionId then 0 else 1))
      else r
  def rotWhyL (lang : Lang) (sym : Nat) : List Tree → Nat × Nat × Nat × Nat
    | [] => (0, 0, 0, 0)
    | c :: rest =>
      let a := rotWhy lang sym c
      let b := rotWhyL lang sym rest
      (a.1 + b.1, a.2.1 + b.2.1, a.2.2.1 + b.2.2.1, a.2.2.2 + b.2.2.2)
end

/-! ## The leaf sequence -/

mutual
  /-- The leaves (nodes without children) of a tree, left to right. -/
  def leaves : Tree → List Tree
    | .mk d [] => [.mk d []]
    | .mk _ (c :: rest) => leavesL (c :: rest)
  def leavesL : List Tree → List Tree
    | [] => []
    | c :: rest => leaves c ++ leavesL rest
end


/-! ## Comparison of a real result with the port's (used by the driver) -/

mutual
  /-- First difference between two trees: path (child indices, outermost first) and what differs. -/
  def treeDiff : Tree → Tree → List Nat → Option String
    | .mk d kids, .mk d' kids', path =>
      if decide (d = d') then
        (if kids.length != kids'.length then some s!"at {path.reverse}: {kids.length} children, expected {kids'.length}"
         else treeDiffL kids kids' path 0)
      else some s!"at {path.reverse}: node data differ (sym {d.symbol}/{d'.symbol}, size {d.size.bytes}/{d'.size.bytes}, pad {d.padding.bytes}/{d'.padding.bytes}, vcc {d.visibleChildCount}/{d'.visibleChildCount}, vdc {d.visibleDescendantCount}/{d'.visibleDescendantCount}, err {d.errorCost}/{d'.errorCost}, rep {d.repeatDepth}/{d'.repeatDepth}, addr {d.addr}/{d'.addr})"
  def treeDiffL : List Tree → List Tree → List Nat → Nat → Option String
    | c :: rest, c' :: rest', path, i =>
      match treeDiff c c' (i :: path) with
      | some e => some e
      | none => treeDiffL rest rest' path (i + 1)
    | _, _, _, _ => none
end

def leafDataEq (a b : List Tree) : Bool :=
  a.length == b.length && (a.zip b).all fun (x, y) => decide (x.data = y.data)

end TsVerif.C02
