import TsVerif.Common.Tree
/-!
# Language tables read by the summaries (C02) and by navigation (C06)

`Lang` holds the *data* of a generated `TSLanguage` that `ts_subtree_summarize_children`,
`node.c` and `tree_cursor.c` consult: symbol metadata, the public symbol map, alias sequences
(per production id) and field maps.  The tables are dumped from the real language object by
`harness/csrc/cunit_c02.c` through the runtime's own accessors, so they are inputs (T-data).
-/
namespace TsVerif.C02
open TsVerif

/-- `ts_builtin_sym_error` = `(TSSymbol)-1`, `ts_builtin_sym_error_repeat` = error − 1. -/
def symError : Nat := 65535
def symErrorRepeat : Nat := 65534
def symEnd : Nat := 0

structure SymInfo where
  visible : Bool := false
  named : Bool := false
  supertype : Bool := false
  pub : Nat := 0
  name : String := ""
  deriving Repr, Inhabited, DecidableEq

structure FieldEntry where
  fieldId : Nat
  childIndex : Nat
  inherited : Bool
  deriving Repr, Inhabited, DecidableEq

structure Lang where
  symbolCount : Nat := 0
  aliasCount : Nat := 0
  tokenCount : Nat := 0
  externalTokenCount : Nat := 0
  fieldCount : Nat := 0
  productionIdCount : Nat := 0
  maxAliasLen : Nat := 0
  syms : Array SymInfo := #[]
  aliasSeqs : Array (Array Nat) := #[]
  fieldMaps : Array (Array FieldEntry) := #[]
  fieldNames : Array String := #[]
  /-- what may be skipped between leaves (read off the grammar's `extras`) -/
  skipKnown : Bool := false
  skipWs : Bool := false
  skipLits : List (List Nat) := []
  deriving Repr, Inhabited

/-- `ts_language_symbol_metadata` (language.c). -/
def Lang.symMeta (l : Lang) (s : Nat) : SymInfo :=
  if s = symError then { visible := true, named := true, pub := symError, name := "ERROR" }
  else if s = symErrorRepeat then { visible := false, named := false, pub := symErrorRepeat, name := "_ERROR" }
  else l.syms.getD s {}

/-- `ts_language_alias_at` / `alias_sequence[structural_index]` with the NULL case of
`ts_language_alias_sequence` (production id 0 has no alias sequence). -/
def Lang.aliasAt (l : Lang) (productionId idx : Nat) : Nat :=
  if productionId = 0 then 0 else (l.aliasSeqs.getD productionId #[]).getD idx 0

/-- `ts_language_public_symbol`. -/
def Lang.publicSymbol (l : Lang) (s : Nat) : Nat :=
  if s = symError then s else (l.symMeta s).pub

def Lang.fieldMap (l : Lang) (productionId : Nat) : Array FieldEntry :=
  if l.fieldCount = 0 then #[] else l.fieldMaps.getD productionId #[]

/-! ## Reading the dump of `tsv-cunit_c02 lang …` -/

def hexString (h : String) : String :=
  if h == "-" then "" else
    match String.fromUTF8? (ByteArray.mk ((unhexBytes h).map (·.toUInt8)).toArray) with
    | some s => s
    | none => h

def parseFieldEntry (s : String) : Option FieldEntry :=
  match s.splitOn ":" with
  | [a, b, c] => some { fieldId := natOf a, childIndex := natOf b, inherited := natOf c != 0 }
  | _ => none

/-- Fold one line of a `deflang … enddeflang` block into the tables. -/
def Lang.addLine (l : Lang) (line : String) : Lang :=
  match line.splitOn " " with
  | ["language", sc, ac, tc, etc, fc, pc, mal, _sts, _abi] =>
    { l with symbolCount := natOf sc, aliasCount := natOf ac, tokenCount := natOf tc
             externalTokenCount := natOf etc, fieldCount := natOf fc
             productionIdCount := natOf pc, maxAliasLen := natOf mal
             syms := Array.replicate (natOf sc + natOf ac) {}
             aliasSeqs := Array.replicate (natOf pc) #[]
             fieldMaps := Array.replicate (natOf pc) #[]
             fieldNames := Array.replicate (natOf fc + 1) "" }
  | ["sym", id, v, n, st, pub, nm] =>
    let i := natOf id
    if i < l.syms.size then
      let info : SymInfo :=
        { visible := natOf v != 0, named := natOf n != 0, supertype := natOf st != 0
          pub := natOf pub, name := hexString nm }
      { l with syms := l.syms.setIfInBounds i info }
    else l
  | "aseq" :: pid :: rest =>
    { l with aliasSeqs := l.aliasSeqs.setIfInBounds (natOf pid) (rest.map natOf).toArray }
  | "fmap" :: pid :: rest =>
    { l with fieldMaps := l.fieldMaps.setIfInBounds (natOf pid) (rest.filterMap parseFieldEntry).toArray }
  | ["field", id, nm] =>
    { l with fieldNames := l.fieldNames.setIfInBounds (natOf id) (hexString nm) }
  | "skip" :: "unknown" :: _ => { l with skipKnown := false }
  | "skip" :: ws :: lits =>
    { l with skipKnown := true, skipWs := ws == "1"
             skipLits := (lits.filter (· != "")).map unhexBytes }
  | _ => l

end TsVerif.C02
