import TsVerif.C01.Lemmas
/-!
# C02 — "a tree is always returned", for the deterministic LR machine of C01 (a statement about the MODEL)

Everything here is about `TsVerif.C01.LR` — the deterministic table-driven machine of C01 (one action per
(state, token), token extras, non-terminal extras; NO GLR versions, NO error recovery, NO lexer) — not about
`ts_parser_parse`.  It shows what the clause "parsing terminates and returns a tree … every byte lies inside a leaf"
looks like where the driver IS modelled:

* `modelParse T fuel toks` runs the machine from the empty stack and wraps whatever it stopped with into ONE tree:
  the parse forest on the stack plus the tokens not consumed, under an `accept` node when the machine stopped on an
  `accept` action and under an ERROR node otherwise (stuck in an `error` entry, popping below the stack, end of the token
  string, or out of fuel) — the model's stand-in for "wrap everything in an ERROR node";
* `model_tree_tiles` — for EVERY table, fuel and token string the returned tree's leaves are exactly the tokens, in
  order (no token is lost or duplicated, accepted or not): totality + tiling of the model driver;
* `model_halts` — progress measure (tokens left, silent steps left in the current burst): if every `K + 1` consecutive
  steps consume a token (`ReduceBound T K`: no unbounded run of reductions without a shift — a property of the TABLE),
  the machine has really stopped after `(|toks| + 1)·(K + 1)` steps, so the outcome is a true accept or a true stuck
  state, never fuel exhaustion.
-/
namespace TsVerif.C02.ModelDriver
open TsVerif.C01 TsVerif.C01.LR

mutual
  /-- The tokens at the leaves of a tree, in order. -/
  def leaves : PTree → List Tok
    | .leaf t => [t]
    | .node _ kids => leavesL kids
  def leavesL : List PTree → List Tok
    | [] => []
    | k :: ks => leaves k ++ leavesL ks
end

theorem leavesL_append : ∀ (a b : List PTree), leavesL (a ++ b) = leavesL a ++ leavesL b
  | [], _ => rfl
  | k :: ks, b => by simp [leavesL, leavesL_append ks b]

theorem leavesL_map_leaf : ∀ (ts : List Tok), leavesL (ts.map PTree.leaf) = ts
  | [] => rfl
  | t :: ts => by simp [leavesL, leaves, leavesL_map_leaf ts]

/-- The trees on a stack (top first) in text order. -/
def forest (st : Stack) : List PTree := st.reverse.map (·.tree)

/-- The tokens below a stack, in text order. -/
def stackLeaves (st : Stack) : List Tok := leavesL (forest st)

theorem forest_cons (e : Entry) (st : Stack) : forest (e :: st) = forest st ++ [e.tree] := by
  simp [forest]

theorem forest_append (a b : Stack) : forest (a ++ b) = forest b ++ forest a := by
  simp [forest]

theorem popN_split : ∀ (st : Stack) (n : Nat) (p : List Entry) (r : Stack), popN st n = some (p, r) → st = p ++ r
  | st, 0, p, r, h => by simp [popN] at h; obtain ⟨rfl, rfl⟩ := h; rfl
  | [], n + 1, p, r, h => by simp [popN] at h
  | e :: st, n + 1, p, r, h => by
    simp only [popN] at h
    split at h
    · rename_i p' r' hp
      simp only [Option.some.injEq, Prod.mk.injEq] at h
      obtain ⟨rfl, rfl⟩ := h
      have := popN_split st _ p' r' hp
      rw [this]; rfl
    · contradiction

theorem forest_map_state (l : List Entry) (g : Nat) : forest (l.map fun e => { e with state := g }) = forest l := by
  simp [forest, List.map_reverse, Function.comp_def]

/-- A reduction re-brackets the forest: the tokens below the stack stay what they were. -/
theorem pushReduced_leaves (T : Table) (bottom A : Nat) (p : List Entry) (r : Stack) (x : Bool) :
    stackLeaves (pushReduced T bottom A p r x) = stackLeaves (p ++ r) := by
  unfold pushReduced stackLeaves
  simp only
  rw [forest_append, forest_map_state, forest_cons, forest_append]
  simp only [leavesL_append, leavesL, leaves, List.append_nil, List.append_assoc]
  congr 1
  have hp : p = p.takeWhile (·.extra) ++ p.dropWhile (·.extra) := (List.takeWhile_append_dropWhile).symm
  conv => rhs; rw [hp]
  rw [forest_append, leavesL_append]
  rfl

/-- One machine step moves tokens from the input below the stack, or re-brackets: nothing is lost. -/
theorem step_leaves (T : Table) (bottom : Nat) (st : Stack) (inp : List Tok) (st' : Stack) (inp' : List Tok)
    (h : step T bottom st inp = some (st', inp')) : stackLeaves st' ++ inp' = stackLeaves st ++ inp := by
  unfold step at h
  split at h
  · -- end of a non-terminal extra
    split at h
    · rename_i A n _
      split at h
      · rename_i p r hp
        simp only [Option.some.injEq, Prod.mk.injEq] at h
        obtain ⟨rfl, rfl⟩ := h
        rw [pushReduced_leaves, ← popN_split st n p r hp]
      · contradiction
    · contradiction
  · split at h
    · contradiction
    · rename_i x rest
      split at h
      · simp only [Option.some.injEq, Prod.mk.injEq] at h
        obtain ⟨rfl, rfl⟩ := h
        simp [stackLeaves, forest_cons, leavesL_append, leavesL, leaves]
      · simp only [Option.some.injEq, Prod.mk.injEq] at h
        obtain ⟨rfl, rfl⟩ := h
        simp [stackLeaves, forest_cons, leavesL_append, leavesL, leaves]
      · rename_i A n _
        split at h
        · rename_i p r hp
          simp only [Option.some.injEq, Prod.mk.injEq] at h
          obtain ⟨rfl, rfl⟩ := h
          rw [pushReduced_leaves, ← popN_split st n p r hp]
        · contradiction
      · contradiction
      · contradiction

theorem run_leaves (T : Table) (bottom : Nat) : ∀ (fuel : Nat) (st : Stack) (inp : List Tok),
    stackLeaves (run T bottom fuel st inp).1 ++ (run T bottom fuel st inp).2 = stackLeaves st ++ inp
  | 0, _, _ => rfl
  | fuel + 1, st, inp => by
    unfold run
    split
    · rename_i st' inp' hs
      rw [run_leaves T bottom fuel st' inp', step_leaves T bottom st inp st' inp' hs]
    · rfl

/-! ## The model driver -/

inductive Outcome where
  | accepted | error
  deriving DecidableEq, Repr

def symAccept : Nat := 65533
def symError : Nat := 65535

/-- Did the machine stop on an `accept` action? -/
def stoppedOnAccept (T : Table) (st : Stack) (inp : List Tok) : Bool :=
  !T.noLookahead (top 0 st) &&
    match inp with
    | x :: _ => T.action (top 0 st) x.sym == .accept
    | [] => false

/-- The model's driver: run the machine, then wrap the forest and the unconsumed tokens into one tree. -/
def modelParse (T : Table) (fuel : Nat) (toks : List Tok) : PTree × Outcome :=
  let c := run T 0 fuel [] toks
  let ok := stoppedOnAccept T c.1 c.2
  (.node (if ok then symAccept else symError) (forest c.1 ++ c.2.map PTree.leaf), if ok then .accepted else .error)

/-- **model_tree_tiles.**  For every table, every amount of fuel and every token string the model driver returns a
tree — accepted or ERROR — whose leaves are exactly the input tokens, in order. -/
theorem model_tree_tiles (T : Table) (fuel : Nat) (toks : List Tok) : leaves (modelParse T fuel toks).1 = toks := by
  unfold modelParse
  simp only [leaves, leavesL_append, leavesL_map_leaf]
  have := run_leaves T 0 fuel [] toks
  simpa [stackLeaves, forest, leavesL] using this

/-! ## Progress -/

/-- Every `K + 1` consecutive machine steps consume at least one token (no run of more than `K` reductions without a
shift): a property of the table. -/
def ReduceBound (T : Table) (K : Nat) : Prop :=
  ∀ (st : Stack) (inp : List Tok) (st' : Stack) (inp' : List Tok), steps T 0 (K + 1) st inp = some (st', inp') → inp'.length < inp.length

theorem run_none (T : Table) (bottom : Nat) : ∀ (fuel : Nat) (st : Stack) (inp : List Tok), step T bottom st inp = none →
    run T bottom fuel st inp = (st, inp)
  | 0, _, _, _ => rfl
  | fuel + 1, st, inp, h => by simp [run, h]

/-- Either `k` steps succeed, or the machine stops earlier and `run` with `k` units of fuel (or more) ends in a stopped configuration. -/
theorem steps_or_halt (T : Table) (bottom : Nat) : ∀ (k : Nat) (st : Stack) (inp : List Tok),
    (∃ c, steps T bottom k st inp = some c) ∨
    (∀ m, step T bottom (run T bottom (k + m) st inp).1 (run T bottom (k + m) st inp).2 = none)
  | 0, st, inp => Or.inl ⟨(st, inp), rfl⟩
  | k + 1, st, inp => by
    cases hs : step T bottom st inp with
    | none =>
      right; intro m
      rw [run_none T bottom _ st inp hs]; exact hs
    | some c =>
      obtain ⟨st1, inp1⟩ := c
      rcases steps_or_halt T bottom k st1 inp1 with ⟨d, hd⟩ | hh
      · left; exact ⟨d, by simp [steps, hs, hd]⟩
      · right; intro m
        have : run T bottom (k + 1 + m) st inp = run T bottom (k + m) st1 inp1 := by
          rw [show k + 1 + m = (k + m) + 1 by omega]; simp [run, hs]
        rw [this]; exact hh m

/-- **model_halts.**  Under `ReduceBound T K` the machine started on `inp` has stopped after `(|inp| + 1)·(K + 1)`
steps (and stays stopped with any more fuel): the measure (tokens left, steps left in the burst) decreases. -/
theorem model_halts (T : Table) (K : Nat) (hb : ReduceBound T K) : ∀ (n : Nat) (st : Stack) (inp : List Tok), inp.length ≤ n →
    ∀ m, step T 0 (run T 0 ((n + 1) * (K + 1) + m) st inp).1 (run T 0 ((n + 1) * (K + 1) + m) st inp).2 = none
  | 0, st, inp, hn, m => by
    rcases steps_or_halt T 0 (K + 1) st inp with ⟨⟨st', inp'⟩, hc⟩ | hh
    · have := hb st inp st' inp' hc; omega
    · have := hh m; simpa [Nat.one_mul] using this
  | n + 1, st, inp, hn, m => by
    rcases steps_or_halt T 0 (K + 1) st inp with ⟨⟨st', inp'⟩, hc⟩ | hh
    · have hlt := hb st inp st' inp' hc
      have e : (n + 1 + 1) * (K + 1) + m = (K + 1) + ((n + 1) * (K + 1) + m) := by
        rw [Nat.add_mul (n + 1) 1 (K + 1)]; omega
      rw [e, run_steps T 0 _ (K + 1) st inp st' inp' hc]
      exact model_halts T K hb n st' inp' (by omega) m
    · have e : (n + 1 + 1) * (K + 1) + m = (K + 1) + ((n + 1) * (K + 1) + m) := by
        rw [Nat.add_mul (n + 1) 1 (K + 1)]; omega
      rw [e]; exact hh _

/-- With that much fuel the outcome of the model driver is a TRUE accept or a TRUE stuck machine. -/
theorem model_parse_halted (T : Table) (K : Nat) (hb : ReduceBound T K) (toks : List Tok) (m : Nat) :
    step T 0 (run T 0 ((toks.length + 1) * (K + 1) + m) [] toks).1 (run T 0 ((toks.length + 1) * (K + 1) + m) [] toks).2 = none :=
  model_halts T K hb toks.length [] toks (Nat.le_refl _) m

/-! ## Non-vacuity: a table that shifts every token but symbol 0, on which it accepts -/

def demoT : Table := { action := fun _ tok => if tok = 0 then .accept else .shift 1, goto := fun _ _ => 0 }

theorem demoT_bound : ReduceBound demoT 0 := by
  intro st inp st' inp' h
  simp only [Nat.zero_add, steps] at h
  split at h
  · rename_i st1 inp1 hs
    simp only [Option.some.injEq, Prod.mk.injEq] at h
    obtain ⟨rfl, rfl⟩ := h
    unfold step at hs
    simp only [demoT, Bool.false_eq_true, if_false] at hs
    cases inp with
    | nil => simp at hs
    | cons x rest =>
      simp only at hs
      by_cases h0 : x.sym = 0
      · simp [h0] at hs
      · simp only [h0, if_false, Option.some.injEq, Prod.mk.injEq] at hs
        obtain ⟨_, rfl⟩ := hs
        simp
  · contradiction

example : (modelParse demoT 10 [⟨5, 0, 1, 0⟩, ⟨7, 0, 1, 0⟩, ⟨0, 0, 0, 0⟩]).2 = .accepted := by decide
example : (modelParse demoT 1 [⟨5, 0, 1, 0⟩, ⟨7, 0, 1, 0⟩, ⟨0, 0, 0, 0⟩]).2 = .error := by decide
example := model_tree_tiles demoT 1 [⟨5, 0, 1, 0⟩, ⟨7, 0, 1, 0⟩, ⟨0, 0, 0, 0⟩]

end TsVerif.C02.ModelDriver
