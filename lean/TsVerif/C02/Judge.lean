import TsVerif.C02.Model
/-!
# C02 — correspondence and judge, evaluated on dumps of real trees

* `corrTree` recomputes `summarize` bottom-up for every inner node of a dumped tree and compares
  every cached field (model = implementation?).
* `judgeCase` decides the property's clauses on the implementation's outputs: geometry from the
  dump (containment, order, tiling, row/column = newline counting, padding is skipped
  whitespace/extras, MISSING empty, literal tokens), and the public `Node` API's answers
  (positions, flags, `has_error`, advertised counts) against the ordered tree of visible nodes
  computed here from the dump alone.
-/
namespace TsVerif.C02
open TsGen TsVerif

/-! ## Failure collection: one detail per clause, all clauses kept -/

structure Fails where
  items : Array (String × String) := #[]
  deriving Repr, Inhabited

def Fails.add (f : Fails) (clause : String) (detail : Unit → String) : Fails :=
  if f.items.any (·.1 == clause) then f else { items := f.items.push (clause, detail ()) }

def Fails.render (f : Fails) : String :=
  if f.items.isEmpty then "ok"
  else "FAIL " ++ String.intercalate "|" (f.items.toList.map (·.1)) ++ " :: " ++
    String.intercalate " ; " (f.items.toList.map fun (c, d) => c ++ ": " ++ d)

def showLen (l : Length) : String := s!"{l.bytes}@{l.extent.row}:{l.extent.column}"

/-! ## Correspondence: cached summaries = `summarize` -/

structure CorrStats where
  inner : Nat := 0
  leaves : Nat := 0
  fails : Fails := {}
  deriving Inhabited

/-- Compare the cached fields of an inner node with the port's result. -/
def corrNode (lang : Lang) (d : NodeData) (kids : List Tree) (path : List Nat) (f : Fails) : Fails :=
  let s := summarize lang length_zero d kids
  let s2 := summarize lang d.size d kids
  let at_ := fun (_ : Unit) => s!"path={path.reverse} sym={d.symbol}"
  let chk := fun (f : Fails) (name : String) (ok : Bool) (m c : String) =>
    if ok then f else f.add ("corr:" ++ name) fun _ => s!"{at_ ()} model={m} cached={c}"
  let f := chk f "padding" (decide (s.padding = d.padding)) (showLen s.padding) (showLen d.padding)
  let f := chk f "size" (decide (s.size = d.size)) (showLen s.size) (showLen d.size)
  let f := chk f "lookahead" (s.lookahead == d.lookahead) (toString s.lookahead) (toString d.lookahead)
  let f := chk f "error_cost" (s.errorCost == d.errorCost) (toString s.errorCost) (toString d.errorCost)
  let f := chk f "visible_child_count" (s.visibleChildCount == d.visibleChildCount) (toString s.visibleChildCount) (toString d.visibleChildCount)
  let f := chk f "named_child_count" (s.namedChildCount == d.namedChildCount) (toString s.namedChildCount) (toString d.namedChildCount)
  let f := chk f "visible_descendant_count" (s.visibleDescendantCount == d.visibleDescendantCount) (toString s.visibleDescendantCount) (toString d.visibleDescendantCount)
  let f := chk f "has_external_tokens" (s.hasExternalTokens == d.hasExternalTokens) (toString s.hasExternalTokens) (toString d.hasExternalTokens)
  let f := chk f "ext_state_change" (s.extStateChange == d.extStateChange) (toString s.extStateChange) (toString d.extStateChange)
  let f := chk f "depends_on_column" (s.dependsOnColumn == d.dependsOnColumn || s2.dependsOnColumn == d.dependsOnColumn)
            (toString s.dependsOnColumn) (toString d.dependsOnColumn)
  -- repeat_depth is NOT compared: `ts_parser__balance_subtree` compresses (rotates) descendants after
  -- their ancestors were summarized and re-summarizes only the three rotated nodes, so an
  -- ancestor's cached repeat depth may be stale in either direction (it only steers balancing).
  let f := chk f "first_leaf" (s.firstLeafSymbol == d.firstLeafSymbol && s.firstLeafState == d.firstLeafState)
            s!"{s.firstLeafSymbol}/{s.firstLeafState}" s!"{d.firstLeafSymbol}/{d.firstLeafState}"
  let f := chk f "fragile" (s.fragileLeft == d.fragileLeft && s.fragileRight == d.fragileRight)
            s!"{s.fragileLeft}/{s.fragileRight}" s!"{d.fragileLeft}/{d.fragileRight}"
  -- parse_state is overwritten by ts_parser__reduce right after the node is built: not compared
  f

/-- Leaves: the constructors leave `error_cost = 0`, MISSING leaves are empty. -/
def corrLeaf (d : NodeData) (path : List Nat) (f : Fails) : Fails :=
  let f := if d.errorCost == 0 then f else f.add "corr:leaf_error_cost" fun _ => s!"path={path.reverse} cost={d.errorCost}"
  if d.isInline && !(ts_subtree_can_inline d.padding d.size d.lookahead && d.symbol ≤ 255) then
    f.add "corr:inline_limits" fun _ => s!"path={path.reverse}"
  else f

mutual
  def corrTree (lang : Lang) (t : Tree) (path : List Nat) (s : CorrStats) : CorrStats :=
    match t with
    | .mk d kids =>
      if kids.isEmpty then { s with leaves := s.leaves + 1, fails := corrLeaf d path s.fails }
      else
        let s := { s with inner := s.inner + 1, fails := corrNode lang d kids path s.fails }
        corrKids lang kids path 0 s
  def corrKids (lang : Lang) (kids : List Tree) (path : List Nat) (i : Nat) (s : CorrStats) : CorrStats :=
    match kids with
    | [] => s
    | c :: rest => corrKids lang rest path (i + 1) (corrTree lang c (i :: path) s)
end

/-! ## Shape invariants of parser-built trees used as hypotheses by the theorems -/

mutual
  /-- `_ERROR` only directly below `ERROR`/`_ERROR`; an ERROR *leaf* only directly below
  `ERROR`/`_ERROR`; the `end` symbol is always extra. -/
  def shapeOK (parentSym : Option Nat) : Tree → Bool
    | .mk d kids =>
      (d.symbol != symErrorRepeat || (match parentSym with | some p => isErrSym p | none => false)) &&
      (!(d.symbol == symError && kids.isEmpty) || (match parentSym with | some p => isErrSym p | none => false)) &&
      (d.symbol != symEnd || d.extra) &&
      shapeOKL (some d.symbol) kids
  def shapeOKL (parentSym : Option Nat) : List Tree → Bool
    | [] => true
    | c :: rest => shapeOK parentSym c && shapeOKL parentSym rest
end

/-! ## Text helpers -/

/-- Row/column of every byte offset `0..n` obtained by counting newlines (byte 10). -/
def posTable (text : Array Nat) : Array TSPoint := Id.run do
  let mut out : Array TSPoint := Array.mkEmpty (text.size + 1)
  let mut row := 0
  let mut col := 0
  out := out.push { row := 0, column := 0 }
  for b in text do
    if b == 10 then
      row := row + 1
      col := 0
    else
      col := col + 1
    out := out.push { row := row, column := col }
  return out

/-- Length in bytes of a Unicode White_Space character encoded at `i` (0 = none). -/
def wsLen (text : Array Nat) (i hi : Nat) : Nat :=
  let b0 := text.getD i 256
  let b1 := if i + 1 < hi then text.getD (i + 1) 256 else 256
  let b2 := if i + 2 < hi then text.getD (i + 2) 256 else 256
  if (9 ≤ b0 ∧ b0 ≤ 13) ∨ b0 = 32 then 1
  else if b0 = 0xC2 ∧ (b1 = 0x85 ∨ b1 = 0xA0) then 2
  else if b0 = 0xE1 ∧ b1 = 0x9A ∧ b2 = 0x80 then 3
  else if b0 = 0xE2 ∧ b1 = 0x80 ∧ ((0x80 ≤ b2 ∧ b2 ≤ 0x8A) ∨ b2 = 0xA8 ∨ b2 = 0xA9 ∨ b2 = 0xAF) then 3
  else if b0 = 0xE2 ∧ b1 = 0x81 ∧ b2 = 0x9F then 3
  else if b0 = 0xE3 ∧ b1 = 0x80 ∧ b2 = 0x80 then 3
  else 0

def matchesAt (text : Array Nat) (i hi : Nat) (lit : List Nat) : Bool :=
  !lit.isEmpty && i + lit.length ≤ hi && (List.range lit.length).all fun k => text.getD (i + k) 256 == lit.getD k 257

/-- First byte of `[lo, hi)` that is NOT something the lexer may skip (whitespace, literal extras,
the byte-order mark at offset 0 — `ts_lexer_start` —, bytes outside the included ranges);
`none` = the whole segment is skippable. -/
def skipScan (lang : Lang) (text : Array Nat) (lo hi : Nat) (ranges : List TSRange := []) : Option Nat :=
  let rec go (fuel i : Nat) : Option Nat :=
    match fuel with
    | 0 => if i ≥ hi then none else some i
    | fuel + 1 =>
      if i ≥ hi then none
      -- a byte outside every included range is never read by the lexer
      else if !ranges.isEmpty && !(ranges.any fun r => r.start_byte ≤ i && i < r.end_byte) then go fuel (i + 1)
      else
        let w := if lang.skipWs then wsLen text i hi else 0
        if w > 0 then go fuel (i + w)
        else match lang.skipLits.find? (matchesAt text i hi) with
          | some lit => go fuel (i + lit.length)
          | none =>
            if i = 0 ∧ matchesAt text 0 hi [0xEF, 0xBB, 0xBF] then go fuel 3 else some i
  go (hi - lo + 1) lo

def skippable (lang : Lang) (text : Array Nat) (lo hi : Nat) (ranges : List TSRange := []) : Bool :=
  (skipScan lang text lo hi ranges).isNone

/-- Does a multi-byte literal extra BEGIN at `i` without being completed (e.g. a lone `\` where the
extra is `\`+newline)?  The generated lexer consumes such a prefix in separator states. -/
def partialSeparatorAt (lang : Lang) (text : Array Nat) (i : Nat) : Bool :=
  lang.skipLits.any fun lit => lit.length ≥ 2 && text.getD i 256 == lit.headD 257

def sliceEq (text : Array Nat) (lo hi : Nat) (bytes : List Nat) : Bool :=
  hi - lo == bytes.length && matchesAt text lo hi bytes || (bytes.isEmpty && lo == hi)

/-- The bytes of `[lo, hi)` that lie inside the included ranges (all of them when there are none). -/
def includedBytes (text : Array Nat) (lo hi : Nat) (ranges : List TSRange) : List Nat :=
  ((List.range (hi - lo)).map (· + lo)).filterMap fun i =>
    if ranges.isEmpty || ranges.any (fun r => r.start_byte ≤ i && i < r.end_byte) then text[i]? else none

/-! ## The ordered tree of visible nodes, computed from the dump -/

structure VNode where
  depth : Nat
  sym : Nat            -- public symbol of alias-or-symbol (what `ts_node_symbol` returns)
  sb : Nat
  eb : Nat
  sp : TSPoint
  ep : TSPoint
  named : Bool
  extra : Bool
  missing : Bool
  isError : Bool
  hasChanges : Bool
  containsErr : Bool   -- the property's meaning of has_error
  errLeaf : Bool       -- childless ERROR node (cost 0)
  cc : Nat := 0
  ncc : Nat := 0
  dc : Nat := 0        -- visible nodes in the subtree, self included
  deriving Repr, Inhabited

structure JS where
  vnodes : Array VNode := #[]
  fails : Fails := {}
  rawNodes : Nat := 0
  hiddenWithVisible : Nat := 0
  aliases : Nat := 0
  extras : Nat := 0
  errors : Nat := 0
  missing : Nat := 0
  multiline : Nat := 0
  zeroWidth : Nat := 0
  leaves : Nat := 0
  literals : Nat := 0
  deriving Inhabited

structure Env where
  lang : Lang
  text : Array Nat
  tbl : Array TSPoint
  ranges : List TSRange := []

def Env.pointOK (e : Env) (l : Length) : Bool :=
  l.bytes ≤ e.text.size && decide (e.tbl.getD l.bytes { row := 0, column := 0 } = l.extent)

mutual
  /-- Walk one raw subtree located at `pos` (start of its padding).  `al` is the alias the parent
  gives it, `lo/hi` the parent's content range.  Returns the state and the number of visible
  nodes in the subtree (self included if visible/aliased/root). -/
  def walk (e : Env) (t : Tree) (pos : Length) (al : Nat) (isRoot : Bool) (depth lo hi : Nat)
      (path : List Nat) (s : JS) : JS × Nat :=
    match t with
    | .mk d kids =>
      let start := length_add pos d.padding
      let stop := length_add start d.size
      let where_ := fun (_ : Unit) => s!"path={path.reverse} sym={d.symbol} [{showLen start},{showLen stop}]"
      let f := s.fails
      let f := if lo ≤ start.bytes && stop.bytes ≤ hi then f else f.add "contained" fun _ => s!"{where_ ()} parent=[{lo},{hi}]"
      let f := if e.pointOK start && e.pointOK stop then f else f.add "rowcol" fun _ =>
                s!"{where_ ()} expected start={repr (e.tbl.getD start.bytes default)} end={repr (e.tbl.getD stop.bytes default)}"
      let f := if !d.isMissing || decide (d.size = length_zero) then f else f.add "missing_empty" where_
      let isLeaf := kids.isEmpty
      let f := if !isLeaf || !e.lang.skipKnown then f else
               match skipScan e.lang e.text pos.bytes start.bytes e.ranges with
               | none => f
               | some i =>
                 f.add (if partialSeparatorAt e.lang e.text i then "padding_skippable:partial-separator" else "padding_skippable")
                   fun _ => s!"{where_ ()} padding=[{pos.bytes},{start.bytes}) first unskippable byte at {i}"
      let m := e.lang.symMeta d.symbol
      let isLiteral := isLeaf && m.visible && !m.named && al == 0 && !d.isMissing && !d.hasExternalTokens &&
                       d.symbol < e.lang.tokenCount - e.lang.externalTokenCount && d.symbol != symEnd
      let f := if !isLiteral || includedBytes e.text start.bytes stop.bytes e.ranges == m.name.toUTF8.toList.map (·.toNat) then f
               else f.add "literal" fun _ => s!"{where_ ()} name={m.name}"
      let relevant := isRoot || d.visible || al != 0
      let sym := if al != 0 then al else d.symbol
      let s := { s with fails := f, rawNodes := s.rawNodes + 1
                        hiddenWithVisible := s.hiddenWithVisible + (if !relevant && d.visibleChildCount > 0 then 1 else 0)
                        aliases := s.aliases + (if al != 0 then 1 else 0)
                        extras := s.extras + (if d.extra && d.symbol != symEnd then 1 else 0)
                        errors := s.errors + (if d.symbol == symError then 1 else 0)
                        missing := s.missing + (if d.isMissing then 1 else 0)
                        multiline := s.multiline + (if isLeaf && d.size.extent.row > 0 then 1 else 0)
                        zeroWidth := s.zeroWidth + (if d.size.bytes == 0 && d.symbol != symEnd then 1 else 0)
                        leaves := s.leaves + (if isLeaf then 1 else 0)
                        literals := s.literals + (if isLiteral then 1 else 0) }
      if relevant then
        let idx := s.vnodes.size
        let chs := enumChildren e.lang t
        let v : VNode :=
          { depth := depth, sym := e.lang.publicSymbol sym, sb := start.bytes, eb := stop.bytes
            sp := start.extent, ep := stop.extent
            named := if al != 0 then (e.lang.symMeta al).named else d.named
            extra := d.extra, missing := d.isMissing, isError := sym == symError
            hasChanges := d.hasChanges
            containsErr := containsErr t, errLeaf := d.symbol == symError && isLeaf
            cc := chs.length, ncc := (chs.filter (entryNamed e.lang)).length }
        let s := { s with vnodes := s.vnodes.push v }
        let (s, n, cur) := walkKids e kids pos d.productionId 0 (depth + 1) start.bytes stop.bytes path 0 s 0
        let s := if isLeaf || decide (cur = stop) then s
                 else { s with fails := s.fails.add "tiles" fun _ => s!"{where_ ()} children end at {showLen cur}" }
        ({ s with vnodes := s.vnodes.modify idx fun v => { v with dc := n + 1 } }, n + 1)
      else
        let (s, n, cur) := walkKids e kids pos d.productionId 0 depth start.bytes stop.bytes path 0 s 0
        let s := if isLeaf || decide (cur = stop) then s
                 else { s with fails := s.fails.add "tiles" fun _ => s!"{where_ ()} children end at {showLen cur}" }
        (s, n)
  /-- The children of a node, left to right; `cur` is the running position, `si` the structural
  index into the parent's alias sequence. -/
  def walkKids (e : Env) (kids : List Tree) (cur : Length) (pid si depth lo hi : Nat) (path : List Nat)
      (i : Nat) (s : JS) (acc : Nat) : JS × Nat × Length :=
    match kids with
    | [] => (s, acc, cur)
    | c :: rest =>
      let al := if c.data.extra then 0 else e.lang.aliasAt pid si
      let si' := if c.data.extra then si else si + 1
      let (s, n) := walk e c cur al false depth lo hi (i :: path) s
      walkKids e rest (length_add cur c.totalSize) pid si' depth lo hi path (i + 1) s (acc + n)
end

/-! ## What the public API reported (one record per visible node, preorder) -/

structure ApiNode where
  depth : Nat
  sym : Nat
  sb : Nat
  eb : Nat
  sp : TSPoint
  ep : TSPoint
  flags : Nat
  cc : Nat
  ncc : Nat
  dc : Nat
  enumC : Nat
  enumN : Nat
  enumD : Nat
  deriving Repr, Inhabited

def parseApiLine (line : String) : Option ApiNode :=
  match line.splitOn " " with
  | ["a", dp, sym, sb, eb, sr, sc, er, ec, fl, cc, ncc, dc, enC, enN, enD] =>
    some { depth := natOf dp, sym := natOf sym, sb := natOf sb, eb := natOf eb
           sp := { row := natOf sr, column := natOf sc }, ep := { row := natOf er, column := natOf ec }
           flags := natOf fl, cc := natOf cc, ncc := natOf ncc, dc := natOf dc
           enumC := natOf enC, enumN := natOf enN, enumD := natOf enD }
  | _ => none

def ApiNode.named (a : ApiNode) : Bool := bit a.flags 0
def ApiNode.extra (a : ApiNode) : Bool := bit a.flags 1
def ApiNode.missing (a : ApiNode) : Bool := bit a.flags 2
def ApiNode.isError (a : ApiNode) : Bool := bit a.flags 3
def ApiNode.hasError (a : ApiNode) : Bool := bit a.flags 4

/-- Nesting/order/containment as seen through the API alone: in preorder, every node lies inside
its parent and starts at or after the end of its previous sibling. -/
def apiNesting (api : Array ApiNode) (textLen : Nat) (f : Fails) : Fails := Id.run do
  -- stack of (depth, sb, eb, end of last child seen)
  let mut stack : List (Nat × Nat × Nat × Nat) := []
  let mut f := f
  let mut k := 0
  for a in api do
    -- pop to the parent
    stack := stack.dropWhile fun (dp, _, _, _) => dp ≥ a.depth
    if !(a.sb ≤ a.eb && a.eb ≤ textLen) then
      f := f.add "api:inside_text" fun _ => s!"node#{k} [{a.sb},{a.eb}] text={textLen}"
    match stack with
    | (dp, psb, peb, lastEnd) :: restStack =>
      if !(psb ≤ a.sb && a.eb ≤ peb) then
        f := f.add "api:child_in_parent" fun _ => s!"node#{k} [{a.sb},{a.eb}] parent [{psb},{peb}]"
      if !(lastEnd ≤ a.sb) then
        f := f.add "api:siblings_ordered_disjoint" fun _ => s!"node#{k} [{a.sb},{a.eb}] previous sibling ends {lastEnd}"
      if dp + 1 != a.depth then
        f := f.add "api:depth" fun _ => s!"node#{k} depth {a.depth} under {dp}"
      stack := (a.depth, a.sb, a.eb, a.sb) :: (dp, psb, peb, a.eb) :: restStack
    | [] =>
      if k != 0 then
        f := f.add "api:single_root" fun _ => s!"node#{k}"
      stack := [(a.depth, a.sb, a.eb, a.sb)]
    k := k + 1
  return f

def cmpApi (vn : Array VNode) (api : Array ApiNode) (f : Fails) : Fails := Id.run do
  let mut f := f
  if vn.size != api.size then
    f := f.add "api:node_count" fun _ => s!"dump has {vn.size} visible nodes, API walk found {api.size}"
  for k in [0:min vn.size api.size] do
    let v := vn[k]!
    let a := api[k]!
    let at_ := fun (_ : Unit) => s!"node#{k} sym={v.sym} [{v.sb},{v.eb}]"
    if !(v.depth == a.depth && v.sym == a.sym) then
      f := f.add "api:structure" fun _ => s!"{at_ ()} api depth={a.depth} sym={a.sym} dump depth={v.depth}"
    if !(v.sb == a.sb && v.eb == a.eb) then
      f := f.add "api:bytes" fun _ => s!"{at_ ()} api [{a.sb},{a.eb}]"
    if !(decide (v.sp = a.sp) && decide (v.ep = a.ep)) then
      f := f.add "api:points" fun _ => s!"{at_ ()} api {repr a.sp} {repr a.ep} dump {repr v.sp} {repr v.ep}"
    if !(v.named == a.named && v.extra == a.extra && v.missing == a.missing && v.isError == a.isError) then
      f := f.add "api:flags" fun _ => s!"{at_ ()} api flags={a.flags}"
    if v.containsErr != a.hasError then
      if v.errLeaf && !a.hasError then
        f := f.add "has_error:error-leaf" fun _ => s!"{at_ ()} is_error=true but has_error=false (childless ERROR node, error_cost 0)"
      else
        f := f.add "has_error:other" fun _ => s!"{at_ ()} api has_error={a.hasError} ERROR/MISSING at or below={v.containsErr}"
    if !(v.cc == a.cc && a.cc == a.enumC) then
      f := f.add "count:children" fun _ => s!"{at_ ()} advertised={a.cc} cursor-enumerated={a.enumC} dump-enumerated={v.cc}"
    if !(v.ncc == a.ncc && a.ncc == a.enumN) then
      f := f.add "count:named_children" fun _ => s!"{at_ ()} advertised={a.ncc} cursor-enumerated={a.enumN} dump-enumerated={v.ncc}"
    if !(v.dc == a.dc && a.dc == a.enumD) then
      f := f.add "count:descendants" fun _ => s!"{at_ ()} advertised={a.dc} walk-enumerated={a.enumD} dump-enumerated={v.dc}"
  return f

structure CaseResult where
  corr : Fails
  inv : Bool
  judge : Fails
  js : JS
  corrStats : CorrStats

/-- Everything for one real tree. -/
def judgeCase (lang : Lang) (text : Array Nat) (root : Tree) (api : Array ApiNode) (ranges : List TSRange := []) : CaseResult :=
  let cs := corrTree lang root [] {}
  let e : Env := { lang := lang, text := text, tbl := posTable text, ranges := ranges }
  let (js, _) := walk e root length_zero 0 true 0 0 text.size [] {}
  -- what follows the root must be skippable too (trailing whitespace belongs to no node)
  let rootEnd := root.totalBytes
  let f := js.fails
  let f := if !lang.skipKnown || skippable lang text rootEnd text.size ranges then f
           else f.add "trailing_skippable" fun _ => s!"root ends at {rootEnd}, text has {text.size} bytes"
  let f := apiNesting api text.size f
  let f := cmpApi js.vnodes api f
  { corr := cs.fails, inv := shapeOK none root, judge := f, js := js, corrStats := cs }

/-! ## Widths of the cached fields (tie of the ℕ-valued model to the C struct)

The model computes every cached summary in `Nat` under the stated assumption "documents < 4 GiB": a quantity that
grows with the document (child, named-child and descendant counts, error cost, byte/row/column extents, lookahead)
never exceeds what 32 bits hold there, so the C field must hold EVERY 32-bit value for the model's sums to be the
code's sums (`counts_fit_32` in Props.lean bounds the three counts by the number of nodes).  Grammar-bounded fields
(symbol, production id, parse state, repeat depth) are 16-bit ABI types.  The unity build measures the real
struct (`tsv-cunit_c02 widths`: an all-ones heap record read back through the runtime's accessors). -/
def assumedBits : List (String × Nat) :=
  [("child_count", 32), ("visible_child_count", 32), ("named_child_count", 32), ("visible_descendant_count", 32),
   ("error_cost", 32), ("lookahead_bytes", 32), ("padding_bytes", 32), ("padding_row", 32), ("padding_column", 32),
   ("size_bytes", 32), ("size_row", 32), ("size_column", 32),
   ("repeat_depth", 16), ("production_id", 16), ("symbol", 16), ("parse_state", 16)]

/-- Number of bits of an all-ones value `2^w − 1`. -/
def bitsOfMax (maxValue : Nat) : Nat := Nat.log2 (maxValue + 1)

/-- The fields whose measured width is below the assumed one (or that were not measured). -/
def widthFails (measured : List (String × Nat)) : List String :=
  assumedBits.filterMap fun (name, w) =>
    match measured.lookup name with
    | some v => if bitsOfMax v ≥ w then none else some s!"{name}: holds {bitsOfMax v} bits (max {v}), the model assumes >= {w}"
    | none => some s!"{name}: not measured"

end TsVerif.C02
