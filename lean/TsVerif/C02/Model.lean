import TsVerif.Gen.Basic
import TsVerif.Gen.Consts
import TsVerif.Gen.C02
import TsVerif.Common.Tree
import TsVerif.C02.Lang
/-!
# C02 — port of `ts_subtree_summarize_children` (lib/src/subtree.c) and of the leaf constructors

`summarize lang init d kids` is the C function, line by line: the `for` loop over the children is
`loop`, whose accumulator `Acc` holds exactly the fields of `self.ptr` that the loop assigns plus
the two locals `structural_index` and `lookahead_end_byte`.  `init` is the value of
`self.ptr->size` when the function is entered (the C code reads it in iteration 0 before it
assigns it: `self.ptr->size.extent.row == 0 && depends_on_column(child)`); it is `length_zero`
when called from `ts_subtree_new_node`.  Helpers `length_add`, `ts_subtree__error_extent_cost`
and the error-cost constants are the *generated* definitions (T-gen).
-/
namespace TsVerif.C02
open TsGen TsVerif

/-! ## Accessors of subtree.h (on dumped subtrees) -/

/-- `ts_subtree_error_cost`. -/
def errorCostOf (t : Tree) : Nat :=
  if t.data.isMissing then ERROR_COST_PER_MISSING_TREE + ERROR_COST_PER_RECOVERY else t.data.errorCost

/-- `ts_subtree_leaf_symbol`. -/
def leafSymbol (t : Tree) : Nat :=
  if t.data.isInline then t.data.symbol
  else if t.kids.length = 0 then t.data.symbol else t.data.firstLeafSymbol

/-- `ts_subtree_leaf_parse_state`. -/
def leafParseState (t : Tree) : Nat :=
  if t.data.isInline then t.data.parseState
  else if t.kids.length = 0 then t.data.parseState else t.data.firstLeafState

def isErrSym (s : Nat) : Bool := s == symError || s == symErrorRepeat

/-! ## The loop -/

structure Acc where
  padding : Length
  size : Length
  namedChildCount : Nat := 0
  visibleChildCount : Nat := 0
  errorCost : Nat := 0
  visibleDescendantCount : Nat := 0
  hasExternalTokens : Bool := false
  dependsOnColumn : Bool := false
  extStateChange : Bool := false
  dynamicPrecedence : Int := 0
  /-- `fragile_left = fragile_right = true; parse_state = TS_TREE_STATE_NONE` was executed -/
  errorChild : Bool := false
  structuralIndex : Nat := 0
  lookaheadEnd : Nat := 0
  deriving Repr, Inhabited

/-- The error-cost contribution of one child (the `if (symbol(child) == error_repeat) … else …`). -/
def childErrorCost (selfSym : Nat) (c : Tree) : Nat :=
  if c.data.symbol = symErrorRepeat then
    errorCostOf c - ts_subtree__error_extent_cost c.data.size
  else
    errorCostOf c +
      (if isErrSym selfSym then
        if !c.data.extra && !(c.data.symbol == symError && c.kids.length == 0) then
          if c.data.visible then ERROR_COST_PER_SKIPPED_TREE
          else if c.kids.length > 0 then ERROR_COST_PER_SKIPPED_TREE * c.data.visibleChildCount
          else 0
        else 0
      else 0)

/-- Is the child counted through the alias sequence (`!extra && symbol != 0 && alias_sequence &&
alias_sequence[structural_index] != 0`)? -/
def aliasedAt (lang : Lang) (pid si : Nat) (c : Tree) : Bool :=
  !c.data.extra && c.data.symbol != 0 && lang.aliasAt pid si != 0

/-- (visible_child_count, named_child_count, visible_descendant_count) added by one child. -/
def childCounts (lang : Lang) (pid si : Nat) (c : Tree) : Nat × Nat × Nat :=
  if aliasedAt lang pid si c then
    (1, (if (lang.symMeta (lang.aliasAt pid si)).named then 1 else 0), c.data.visibleDescendantCount + 1)
  else if c.data.visible then
    (1, (if c.data.named then 1 else 0), c.data.visibleDescendantCount + 1)
  else if c.kids.length > 0 then
    (c.data.visibleChildCount, c.data.namedChildCount, c.data.visibleDescendantCount)
  else (0, 0, c.data.visibleDescendantCount)

/-- One iteration of the `for` loop (`i` is the child index). -/
def step (lang : Lang) (selfSym pid : Nat) (a : Acc) (i : Nat) (c : Tree) : Acc :=
  let dependsOnColumn := a.dependsOnColumn || (a.size.extent.row == 0 && c.data.dependsOnColumn)
  let extStateChange := a.extStateChange || c.data.extStateChange
  let padding := if i = 0 then c.data.padding else a.padding
  let size := if i = 0 then c.data.size else length_add a.size c.totalSize
  let childLookaheadEnd := padding.bytes + size.bytes + c.data.lookahead
  let cnt := childCounts lang pid a.structuralIndex c
  { padding := padding, size := size
    namedChildCount := a.namedChildCount + cnt.2.1
    visibleChildCount := a.visibleChildCount + cnt.1
    errorCost := a.errorCost + childErrorCost selfSym c
    visibleDescendantCount := a.visibleDescendantCount + cnt.2.2
    hasExternalTokens := a.hasExternalTokens || c.data.hasExternalTokens
    dependsOnColumn := dependsOnColumn
    extStateChange := extStateChange
    dynamicPrecedence := a.dynamicPrecedence + c.data.dynamicPrecedence
    errorChild := a.errorChild || c.data.symbol == symError
    structuralIndex := if c.data.extra then a.structuralIndex else a.structuralIndex + 1
    lookaheadEnd := if childLookaheadEnd > a.lookaheadEnd then childLookaheadEnd else a.lookaheadEnd }

def loop (lang : Lang) (selfSym pid : Nat) : List Tree → Nat → Acc → Acc
  | [], _, a => a
  | c :: rest, i, a => loop lang selfSym pid rest (i + 1) (step lang selfSym pid a i c)

/-- The result of `ts_subtree_summarize_children` as the new node data. -/
def summarize (lang : Lang) (init : Length) (d : NodeData) (kids : List Tree) : NodeData :=
  let a := loop lang d.symbol d.productionId kids 0 { padding := d.padding, size := init }
  let errorCost := if isErrSym d.symbol then a.errorCost + ts_subtree__error_extent_cost a.size else a.errorCost
  let first := kids.head?
  let last := kids.getLast?
  let fl := match first with | some f => f.data.fragileLeft | none => false
  let fr := match last with | some l => l.data.fragileRight | none => false
  let repeatDepth :=
    match first, last with
    | some f, some l =>
      if kids.length ≥ 2 && !d.visible && !d.named && f.data.symbol == d.symbol then
        (if f.data.repeatDepth > l.data.repeatDepth then f.data.repeatDepth + 1 else l.data.repeatDepth + 1)
      else 0
    | _, _ => 0
  { d with
    padding := a.padding, size := a.size
    lookahead := a.lookaheadEnd - a.size.bytes - a.padding.bytes
    namedChildCount := a.namedChildCount, visibleChildCount := a.visibleChildCount
    errorCost := errorCost, visibleDescendantCount := a.visibleDescendantCount
    hasExternalTokens := a.hasExternalTokens, dependsOnColumn := a.dependsOnColumn
    extStateChange := a.extStateChange, dynamicPrecedence := a.dynamicPrecedence
    repeatDepth := repeatDepth
    fragileLeft := d.fragileLeft || a.errorChild || fl
    fragileRight := d.fragileRight || a.errorChild || fr
    parseState := if a.errorChild then 65535 else d.parseState
    firstLeafSymbol := match first with | some f => leafSymbol f | none => d.firstLeafSymbol
    firstLeafState := match first with | some f => leafParseState f | none => d.firstLeafState }

/-! ## Leaf constructors (the parts the property talks about) -/

/-- `ts_subtree_new_leaf`: the fields that matter here (symbol metadata, extents, flags). -/
def newLeaf (lang : Lang) (symbol : Nat) (padding size : Length) (lookahead parseState : Nat)
    (hasExternalTokens dependsOnColumn isKeyword : Bool) : Tree :=
  let m := lang.symMeta symbol
  let inl := decide (symbol ≤ 255) && !hasExternalTokens && ts_subtree_can_inline padding size lookahead
  .mk { (default : NodeData) with
        symbol := symbol, padding := padding, size := size, lookahead := lookahead, parseState := parseState
        visible := m.visible, named := m.named, extra := symbol == symEnd
        isKeyword := isKeyword, isInline := inl
        hasExternalTokens := !inl && hasExternalTokens, dependsOnColumn := !inl && dependsOnColumn
        errorCost := 0, ext := "-" } []

/-- `ts_subtree_new_missing_leaf`. -/
def newMissingLeaf (lang : Lang) (symbol state : Nat) (padding : Length) (lookahead : Nat) : Tree :=
  match newLeaf lang symbol padding length_zero lookahead state false false false with
  | .mk d ks => .mk { d with isMissing := true } ks

/-- `ts_subtree_new_error`: an error *leaf* — note `error_cost` stays 0. -/
def newErrorLeaf (lang : Lang) (padding size : Length) (bytesScanned parseState : Nat) : Tree :=
  match newLeaf lang symError padding size bytesScanned parseState false false false with
  | .mk d ks => .mk { d with fragileLeft := true, fragileRight := true } ks

/-- `ts_subtree_new_node` (+ `ts_subtree_new_error_node` when `symbol = symError`). -/
def newNode (lang : Lang) (symbol : Nat) (kids : List Tree) (productionId : Nat) : Tree :=
  let m := lang.symMeta symbol
  let fragile := isErrSym symbol
  .mk (summarize lang length_zero
        { (default : NodeData) with symbol := symbol, visible := m.visible, named := m.named
                                    fragileLeft := fragile, fragileRight := fragile
                                    productionId := productionId, ext := "-" } kids) kids

/-! ## Positions, enumeration, error predicates (spec side) -/

/-- Padding and size that the loop assigns, written directly. -/
def kidsPadding : List Tree → Length
  | [] => length_zero
  | c :: _ => c.data.padding

def restSize : List Tree → Length → Length
  | [], s => s
  | c :: rest, s => restSize rest (length_add s c.totalSize)

def kidsSize : List Tree → Length
  | [] => length_zero
  | c :: rest => restSize rest c.data.size

mutual
  /-- Visible children of a node in the order `ts_node_child` enumerates them: a child that is
  visible or aliased counts itself, a hidden child is replaced by its own visible children.
  The second component is the alias symbol (0 = none). -/
  def enumChildren (lang : Lang) : Tree → List (Tree × Nat)
    | .mk d kids => enumKids lang d.productionId kids 0
  def enumKids (lang : Lang) (pid : Nat) : List Tree → Nat → List (Tree × Nat)
    | [], _ => []
    | c :: rest, si =>
      let al := if c.data.extra then 0 else lang.aliasAt pid si
      let si' := if c.data.extra then si else si + 1
      (if c.data.visible || al != 0 then [(c, al)] else enumChildren lang c) ++ enumKids lang pid rest si'
end

/-- Is an enumerated child named (alias metadata wins, as in `ts_node_is_named`)? -/
def entryNamed (lang : Lang) (e : Tree × Nat) : Bool :=
  if e.2 != 0 then (lang.symMeta e.2).named else e.1.data.named

mutual
  /-- Number of visible nodes strictly below a node (what `ts_node_descendant_count − 1` claims). -/
  def countDesc (lang : Lang) : Tree → Nat
    | .mk d kids => countDescKids lang d.productionId kids 0
  def countDescKids (lang : Lang) (pid : Nat) : List Tree → Nat → Nat
    | [], _ => 0
    | c :: rest, si =>
      let al := if c.data.extra then 0 else lang.aliasAt pid si
      let si' := if c.data.extra then si else si + 1
      (if c.data.visible || al != 0 then 1 else 0) + countDesc lang c + countDescKids lang pid rest si'
end

mutual
  /-- An ERROR or MISSING node at or below `t` — what the property (and `api.h`) call an error. -/
  def containsErr : Tree → Bool
    | .mk d kids => d.isMissing || d.symbol == symError || containsErrL kids
  def containsErrL : List Tree → Bool
    | [] => false
    | c :: rest => containsErr c || containsErrL rest
end

mutual
  /-- What `error_cost > 0` actually detects: MISSING, or an error node *with children*. -/
  def costlyErr : Tree → Bool
    | .mk d kids => d.isMissing || (isErrSym d.symbol && !kids.isEmpty) || costlyErrL kids
  def costlyErrL : List Tree → Bool
    | [] => false
    | c :: rest => costlyErr c || costlyErrL rest
end

/-- `ts_node_has_error` of the unchanged tree: `ts_subtree_error_cost(subtree) > 0`. -/
def nodeHasError (t : Tree) : Bool := decide (errorCostOf t > 0)

/-- The repaired `ts_node_has_error` (fixes/C02-has-error-leaf.diff). -/
def nodeHasErrorFixed (t : Tree) : Bool := decide (errorCostOf t > 0) || t.data.symbol == symError

end TsVerif.C02
