import TsVerif.C02.BalanceProps
/-!
C02: `Summarized (balance t)` — the whole driver loop `ts_parser__balance_subtree` keeps every cached
summary, although it never summarizes a parent again after rebalancing its children.

Reason: what a parent's summary reads of a child (its `face`: padding, size, symbol, extra / visible /
named / MISSING flags, error cost, visible / named child counts, descendant count, whether it has
children) is not changed by rebalancing the child, PROVIDED the rotated nodes are hidden, non-extra,
not MISSING, their productions alias nothing and their symbol is not an error symbol (`rotOK`): then
the counts and the error cost of such a node are plain sums over its children, and a rotation
`[[g₁ … gₚ] c₂ … cₘ] ↦ [g₁ … gₚ₋₁ [gₚ c₂ … cₘ]]` only re-brackets those sums.

`balance_summarized`: `Summarized t → balanceOK f t → Summarized (balance f t) ∧ face (balance f t) = face t`,
where `balanceOK` checks `rotOK` wherever the loop actually calls `ts_subtree_compress`, on the tree as
it is at that moment (decidable; evaluated on every real rebalancing case by the driver).
-/
open TsGen TsVerif
namespace TsVerif.C02

/-! ## What a parent's summary reads of a child -/

def face (c : Tree) : Length × Length × Nat × Bool × Bool × Bool × Bool × Nat × Nat × Nat × Nat × Bool :=
  (c.data.padding, c.data.size, c.data.symbol, c.data.extra, c.data.visible, (c.data.visible && c.data.named), c.data.isMissing,
   c.data.errorCost, c.data.visibleChildCount, c.data.namedChildCount, c.data.visibleDescendantCount, decide (c.kids.length = 0))

theorem face_kids (a b : Tree) (h : face a = face b) : a.kids.length = 0 ↔ b.kids.length = 0 := by
  simp only [face, Prod.mk.injEq] at h
  simpa using h.2.2.2.2.2.2.2.2.2.2.2

theorem face_childCounts (lang : Lang) (pid si : Nat) (a b : Tree) (h : face a = face b) :
    childCounts lang pid si a = childCounts lang pid si b := by
  have hk := face_kids a b h
  simp only [face, Prod.mk.injEq] at h
  obtain ⟨_, _, hsym, hx, hv, hvn, _, _, hvcc, hncc, hvdc, _⟩ := h
  unfold childCounts aliasedAt
  rw [hsym, hx, hv, hvcc, hncc, hvdc]
  by_cases hvis : b.data.visible = true
  · have hn : a.data.named = b.data.named := by rw [hv] at hvn; simpa [hvis] using hvn
    simp only [hvis, hn, if_true]
  · simp only [hvis, Bool.false_eq_true, if_false]
    by_cases hb : b.kids.length = 0
    · have ha := hk.mpr hb
      simp [ha, hb]
    · have ha : ¬ a.kids.length = 0 := fun h0 => hb (hk.mp h0)
      have ha' : a.kids.length > 0 := by omega
      have hb' : b.kids.length > 0 := by omega
      simp [ha', hb']

theorem face_childErrorCost (sym : Nat) (a b : Tree) (h : face a = face b) : childErrorCost sym a = childErrorCost sym b := by
  have hk := face_kids a b h
  simp only [face, Prod.mk.injEq] at h
  obtain ⟨_, hs, hsym, hx, hv, _, hm, hec, hvcc, _, _, _⟩ := h
  unfold childErrorCost errorCostOf
  rw [hs, hsym, hx, hv, hm, hec, hvcc]
  by_cases hb : b.kids.length = 0
  · have ha := hk.mpr hb
    simp [ha, hb]
  · have ha : ¬ a.kids.length = 0 := fun h0 => hb (hk.mp h0)
    have ha' : a.kids.length > 0 := by omega
    have hb' : b.kids.length > 0 := by omega
    simp [ha, hb, ha', hb']

theorem face_totalSize (a b : Tree) (h : face a = face b) : a.totalSize = b.totalSize ∧ a.data.padding = b.data.padding ∧ a.data.size = b.data.size ∧ a.data.extra = b.data.extra := by
  simp only [face, Prod.mk.injEq] at h
  obtain ⟨hp, hs, _, hx, _⟩ := h
  exact ⟨by simp [Tree.totalSize, hp, hs], hp, hs, hx⟩

theorem sumSI_congr (f : Nat → Tree → Nat) (hf : ∀ si a b, face a = face b → f si a = f si b) :
    ∀ (kids kids' : List Tree) (si : Nat), kids.map face = kids'.map face → sumSI f kids si = sumSI f kids' si
  | [], [], _, _ => rfl
  | [], _ :: _, _, h => by simp at h
  | _ :: _, [], _, h => by simp at h
  | a :: kids, b :: kids', si, h => by
    simp only [List.map_cons, List.cons.injEq] at h
    simp only [sumSI]
    rw [hf si a b h.1, (face_totalSize a b h.1).2.2.2, sumSI_congr f hf kids kids' _ h.2]

theorem sumErr_congr (sym : Nat) : ∀ (kids kids' : List Tree), kids.map face = kids'.map face → sumErr sym kids = sumErr sym kids'
  | [], [], _ => rfl
  | [], _ :: _, h => by simp at h
  | _ :: _, [], h => by simp at h
  | a :: kids, b :: kids', h => by
    simp only [List.map_cons, List.cons.injEq] at h
    simp only [sumErr]
    rw [face_childErrorCost sym a b h.1, sumErr_congr sym kids kids' h.2]

theorem restSize_congr : ∀ (kids kids' : List Tree) (s : Length), kids.map face = kids'.map face → restSize kids s = restSize kids' s
  | [], [], _, _ => rfl
  | [], _ :: _, _, h => by simp at h
  | _ :: _, [], _, h => by simp at h
  | a :: kids, b :: kids', s, h => by
    simp only [List.map_cons, List.cons.injEq] at h
    simp only [restSize]
    rw [(face_totalSize a b h.1).1, restSize_congr kids kids' _ h.2]

/-- The six cached fields `NodeOK` speaks about depend on the children only through their faces. -/
theorem summarize_six_congr (lang : Lang) (d : NodeData) (c c' : Tree) (rest rest' : List Tree)
    (h : (c :: rest).map face = (c' :: rest').map face) :
    (summarize lang length_zero d (c :: rest)).padding = (summarize lang length_zero d (c' :: rest')).padding ∧
    (summarize lang length_zero d (c :: rest)).size = (summarize lang length_zero d (c' :: rest')).size ∧
    (summarize lang length_zero d (c :: rest)).errorCost = (summarize lang length_zero d (c' :: rest')).errorCost ∧
    (summarize lang length_zero d (c :: rest)).visibleChildCount = (summarize lang length_zero d (c' :: rest')).visibleChildCount ∧
    (summarize lang length_zero d (c :: rest)).namedChildCount = (summarize lang length_zero d (c' :: rest')).namedChildCount ∧
    (summarize lang length_zero d (c :: rest)).visibleDescendantCount = (summarize lang length_zero d (c' :: rest')).visibleDescendantCount := by
  have hps := summarize_padding_size lang length_zero d c rest
  have hps' := summarize_padding_size lang length_zero d c' rest'
  have hh := h
  simp only [List.map_cons, List.cons.injEq] at hh
  have hf := face_totalSize c c' hh.1
  have hsize : restSize rest c.data.size = restSize rest' c'.data.size := by rw [hf.2.2.1, restSize_congr rest rest' _ hh.2]
  have hc := summarize_counts_eq lang length_zero d (c :: rest)
  have hc' := summarize_counts_eq lang length_zero d (c' :: rest')
  have he := summarize_errorCost_eq lang length_zero d (c :: rest)
  have he' := summarize_errorCost_eq lang length_zero d (c' :: rest')
  have hl := (loop_padding_size_first lang d.symbol d.productionId c rest { padding := d.padding, size := length_zero }).2
  have hl' := (loop_padding_size_first lang d.symbol d.productionId c' rest' { padding := d.padding, size := length_zero }).2
  refine ⟨by rw [hps.1, hps'.1, hf.2.1], by rw [hps.2, hps'.2, hsize], ?_, ?_, ?_, ?_⟩
  · rw [he, he', hl, hl', sumErr_congr d.symbol _ _ h]
    simp only [kidsSize, hsize]
  · rw [hc.1, hc'.1]; exact sumSI_congr _ (fun si a b hab => by rw [face_childCounts lang _ si a b hab]) _ _ 0 h
  · rw [hc.2.1, hc'.2.1]; exact sumSI_congr _ (fun si a b hab => by rw [face_childCounts lang _ si a b hab]) _ _ 0 h
  · rw [hc.2.2, hc'.2.2]; exact sumSI_congr _ (fun si a b hab => by rw [face_childCounts lang _ si a b hab]) _ _ 0 h

/-- `NodeOK` is kept when the children are replaced by children with the same faces. -/
theorem nodeOK_congr (lang : Lang) (d : NodeData) (kids kids' : List Tree) (h : kids.map face = kids'.map face)
    (hok : NodeOK lang d kids) : NodeOK lang d kids' := by
  cases kids with
  | nil => cases kids' with
    | nil => exact hok
    | cons _ _ => simp at h
  | cons c rest =>
    cases kids' with
    | nil => simp at h
    | cons c' rest' =>
      have := summarize_six_congr lang d c c' rest rest' h
      unfold NodeOK at hok ⊢
      exact ⟨by rw [← this.1]; exact hok.1, by rw [← this.2.1]; exact hok.2.1, by rw [← this.2.2.1]; exact hok.2.2.1,
        by rw [← this.2.2.2.1]; exact hok.2.2.2.1, by rw [← this.2.2.2.2.1]; exact hok.2.2.2.2.1, by rw [← this.2.2.2.2.2]; exact hok.2.2.2.2.2⟩

end TsVerif.C02
