import TsVerif.C02.BalanceProps
/-!
C02: `Summarized (balance t)` — the whole driver loop `ts_parser__balance_subtree` keeps every cached
summary, although it never summarizes a parent again after rebalancing its children.

Reason: what a parent's summary reads of a child (its `face`: padding, size, symbol, extra / visible /
named / MISSING flags, error cost, visible / named child counts, descendant count, whether it has
children) is not changed by rebalancing the child, PROVIDED the rotated nodes are hidden, non-extra,
not MISSING, their productions alias nothing and their symbol is not an error symbol (`rotOK`): then
the counts and the error cost of such a node are plain sums over its children, and a rotation
`[[g₁ … gₚ] c₂ … cₘ] ↦ [g₁ … gₚ₋₁ [gₚ c₂ … cₘ]]` only re-brackets those sums.

`balance_summarized`: `Summarized t → balanceOK f t → Summarized (balance f t) ∧ face (balance f t) = face t`,
where `balanceOK` checks `rotOK` wherever the loop actually calls `ts_subtree_compress`, on the tree as
it is at that moment (decidable; evaluated on every real rebalancing case by the driver).
-/
open TsGen TsVerif
namespace TsVerif.C02

/-! ## What a parent's summary reads of a child -/

theorem face_kids (a b : Tree) (h : face a = face b) : a.kids.length = 0 ↔ b.kids.length = 0 := by
  simp only [face, Prod.mk.injEq] at h
  simpa using h.2.2.2.2.2.2.2.2.2.2.2

theorem face_childCounts (lang : Lang) (pid si : Nat) (a b : Tree) (h : face a = face b) :
    childCounts lang pid si a = childCounts lang pid si b := by
  have hk := face_kids a b h
  simp only [face, Prod.mk.injEq] at h
  obtain ⟨_, _, hsym, hx, hv, hvn, _, _, hvcc, hncc, hvdc, _⟩ := h
  unfold childCounts aliasedAt
  rw [hsym, hx, hv, hvcc, hncc, hvdc]
  by_cases hvis : b.data.visible = true
  · have hn : a.data.named = b.data.named := by rw [hv] at hvn; simpa [hvis] using hvn
    simp only [hvis, hn, if_true]
  · simp only [hvis, Bool.false_eq_true, if_false]
    by_cases hb : b.kids.length = 0
    · have ha := hk.mpr hb
      simp [ha, hb]
    · have ha : ¬ a.kids.length = 0 := fun h0 => hb (hk.mp h0)
      have ha' : a.kids.length > 0 := by omega
      have hb' : b.kids.length > 0 := by omega
      simp [ha', hb']

theorem face_childErrorCost (sym : Nat) (a b : Tree) (h : face a = face b) : childErrorCost sym a = childErrorCost sym b := by
  have hk := face_kids a b h
  simp only [face, Prod.mk.injEq] at h
  obtain ⟨_, hs, hsym, hx, hv, _, hm, hec, hvcc, _, _, _⟩ := h
  unfold childErrorCost errorCostOf
  rw [hs, hsym, hx, hv, hm, hec, hvcc]
  by_cases hb : b.kids.length = 0
  · have ha := hk.mpr hb
    simp [ha, hb]
  · have ha : ¬ a.kids.length = 0 := fun h0 => hb (hk.mp h0)
    have ha' : a.kids.length > 0 := by omega
    have hb' : b.kids.length > 0 := by omega
    simp [ha, hb, ha', hb']

theorem face_totalSize (a b : Tree) (h : face a = face b) : a.totalSize = b.totalSize ∧ a.data.padding = b.data.padding ∧ a.data.size = b.data.size ∧ a.data.extra = b.data.extra := by
  simp only [face, Prod.mk.injEq] at h
  obtain ⟨hp, hs, _, hx, _⟩ := h
  exact ⟨by simp [Tree.totalSize, hp, hs], hp, hs, hx⟩

theorem sumSI_congr (f : Nat → Tree → Nat) (hf : ∀ si a b, face a = face b → f si a = f si b) :
    ∀ (kids kids' : List Tree) (si : Nat), kids.map face = kids'.map face → sumSI f kids si = sumSI f kids' si
  | [], [], _, _ => rfl
  | [], _ :: _, _, h => by simp at h
  | _ :: _, [], _, h => by simp at h
  | a :: kids, b :: kids', si, h => by
    simp only [List.map_cons, List.cons.injEq] at h
    simp only [sumSI]
    rw [hf si a b h.1, (face_totalSize a b h.1).2.2.2, sumSI_congr f hf kids kids' _ h.2]

theorem sumErr_congr (sym : Nat) : ∀ (kids kids' : List Tree), kids.map face = kids'.map face → sumErr sym kids = sumErr sym kids'
  | [], [], _ => rfl
  | [], _ :: _, h => by simp at h
  | _ :: _, [], h => by simp at h
  | a :: kids, b :: kids', h => by
    simp only [List.map_cons, List.cons.injEq] at h
    simp only [sumErr]
    rw [face_childErrorCost sym a b h.1, sumErr_congr sym kids kids' h.2]

theorem restSize_congr : ∀ (kids kids' : List Tree) (s : Length), kids.map face = kids'.map face → restSize kids s = restSize kids' s
  | [], [], _, _ => rfl
  | [], _ :: _, _, h => by simp at h
  | _ :: _, [], _, h => by simp at h
  | a :: kids, b :: kids', s, h => by
    simp only [List.map_cons, List.cons.injEq] at h
    simp only [restSize]
    rw [(face_totalSize a b h.1).1, restSize_congr kids kids' _ h.2]

/-- The six cached fields `NodeOK` speaks about depend on the children only through their faces. -/
theorem summarize_six_congr (lang : Lang) (d : NodeData) (c c' : Tree) (rest rest' : List Tree)
    (h : (c :: rest).map face = (c' :: rest').map face) :
    (summarize lang length_zero d (c :: rest)).padding = (summarize lang length_zero d (c' :: rest')).padding ∧
    (summarize lang length_zero d (c :: rest)).size = (summarize lang length_zero d (c' :: rest')).size ∧
    (summarize lang length_zero d (c :: rest)).errorCost = (summarize lang length_zero d (c' :: rest')).errorCost ∧
    (summarize lang length_zero d (c :: rest)).visibleChildCount = (summarize lang length_zero d (c' :: rest')).visibleChildCount ∧
    (summarize lang length_zero d (c :: rest)).namedChildCount = (summarize lang length_zero d (c' :: rest')).namedChildCount ∧
    (summarize lang length_zero d (c :: rest)).visibleDescendantCount = (summarize lang length_zero d (c' :: rest')).visibleDescendantCount := by
  have hps := summarize_padding_size lang length_zero d c rest
  have hps' := summarize_padding_size lang length_zero d c' rest'
  have hh := h
  simp only [List.map_cons, List.cons.injEq] at hh
  have hf := face_totalSize c c' hh.1
  have hsize : restSize rest c.data.size = restSize rest' c'.data.size := by rw [hf.2.2.1, restSize_congr rest rest' _ hh.2]
  have hc := summarize_counts_eq lang length_zero d (c :: rest)
  have hc' := summarize_counts_eq lang length_zero d (c' :: rest')
  have he := summarize_errorCost_eq lang length_zero d (c :: rest)
  have he' := summarize_errorCost_eq lang length_zero d (c' :: rest')
  have hl := (loop_padding_size_first lang d.symbol d.productionId c rest { padding := d.padding, size := length_zero }).2
  have hl' := (loop_padding_size_first lang d.symbol d.productionId c' rest' { padding := d.padding, size := length_zero }).2
  refine ⟨by rw [hps.1, hps'.1, hf.2.1], by rw [hps.2, hps'.2, hsize], ?_, ?_, ?_, ?_⟩
  · rw [he, he', hl, hl', sumErr_congr d.symbol _ _ h]
    simp only [kidsSize, hsize]
  · rw [hc.1, hc'.1]; exact sumSI_congr _ (fun si a b hab => by rw [face_childCounts lang _ si a b hab]) _ _ 0 h
  · rw [hc.2.1, hc'.2.1]; exact sumSI_congr _ (fun si a b hab => by rw [face_childCounts lang _ si a b hab]) _ _ 0 h
  · rw [hc.2.2, hc'.2.2]; exact sumSI_congr _ (fun si a b hab => by rw [face_childCounts lang _ si a b hab]) _ _ 0 h

/-- `NodeOK` is kept when the children are replaced by children with the same faces. -/
theorem nodeOK_congr (lang : Lang) (d : NodeData) (kids kids' : List Tree) (h : kids.map face = kids'.map face)
    (hok : NodeOK lang d kids) : NodeOK lang d kids' := by
  cases kids with
  | nil => cases kids' with
    | nil => exact hok
    | cons _ _ => simp at h
  | cons c rest =>
    cases kids' with
    | nil => simp at h
    | cons c' rest' =>
      have := summarize_six_congr lang d c c' rest rest' h
      unfold NodeOK at hok ⊢
      exact ⟨by rw [← this.1]; exact hok.1, by rw [← this.2.1]; exact hok.2.1, by rw [← this.2.2.1]; exact hok.2.2.1,
        by rw [← this.2.2.2.1]; exact hok.2.2.2.1, by rw [← this.2.2.2.2.1]; exact hok.2.2.2.2.1, by rw [← this.2.2.2.2.2]; exact hok.2.2.2.2.2⟩


/-! ## Alias-free, non-error nodes: counts and error cost are plain sums -/

theorem allZero_getD (a : Array Nat) (h : a.all (· == 0) = true) (i : Nat) : a.getD i 0 = 0 := by
  rw [Array.getD_eq_getD_getElem?]
  cases hi : a[i]? with
  | none => rfl
  | some x =>
    have := Array.all_eq_true.mp h
    obtain ⟨hlt, hx⟩ := Array.getElem?_eq_some_iff.mp hi
    have := this i hlt
    simp [hx] at this
    simp [this]

theorem aliasFree_at (lang : Lang) (pid : Nat) (h : aliasFree lang pid = true) (i : Nat) : lang.aliasAt pid i = 0 := by
  unfold aliasFree at h
  unfold Lang.aliasAt
  by_cases hp : pid = 0
  · simp [hp]
  · simp only [hp, if_false]
    have : (pid == 0) = false := by simpa using hp
    simp only [this, Bool.false_or] at h
    exact allZero_getD _ h i

/-- What a child adds to the three counts when the parent's production aliases nothing. -/
def cnt0 (c : Tree) : Nat × Nat × Nat :=
  if c.data.visible then (1, (if c.data.named then 1 else 0), c.data.visibleDescendantCount + 1)
  else if c.kids.length > 0 then (c.data.visibleChildCount, c.data.namedChildCount, c.data.visibleDescendantCount)
  else (0, 0, c.data.visibleDescendantCount)

theorem childCounts_aliasFree (lang : Lang) (pid si : Nat) (c : Tree) (h : aliasFree lang pid = true) :
    childCounts lang pid si c = cnt0 c := by
  unfold childCounts aliasedAt cnt0
  simp [aliasFree_at lang pid h si]

def sumC (g : Tree → Nat) : List Tree → Nat
  | [] => 0
  | c :: rest => g c + sumC g rest

theorem sumC_append (g : Tree → Nat) : ∀ (a b : List Tree), sumC g (a ++ b) = sumC g a + sumC g b
  | [], b => by simp [sumC]
  | c :: a, b => by simp [sumC, sumC_append g a b, Nat.add_assoc]

theorem sumErr_append (sym : Nat) : ∀ (a b : List Tree), sumErr sym (a ++ b) = sumErr sym a + sumErr sym b
  | [], b => by simp [sumErr]
  | c :: a, b => by simp [sumErr, sumErr_append sym a b, Nat.add_assoc]

theorem sumSI_aliasFree (lang : Lang) (pid : Nat) (h : aliasFree lang pid = true) (sel : Nat × Nat × Nat → Nat) :
    ∀ (kids : List Tree) (si : Nat), sumSI (fun si c => sel (childCounts lang pid si c)) kids si = sumC (fun c => sel (cnt0 c)) kids
  | [], _ => rfl
  | c :: rest, si => by
    simp only [sumSI, sumC]
    rw [childCounts_aliasFree lang pid si c h, sumSI_aliasFree lang pid h sel rest]

/-- The four summaries of a re-summarized alias-free node whose symbol is not an error symbol. -/
theorem summarize_rot (lang : Lang) (d : NodeData) (kids : List Tree) (ha : aliasFree lang d.productionId = true)
    (he : isErrSym d.symbol = false) :
    (summarize lang length_zero d kids).errorCost = sumErr d.symbol kids ∧
    (summarize lang length_zero d kids).visibleChildCount = sumC (fun c => (cnt0 c).1) kids ∧
    (summarize lang length_zero d kids).namedChildCount = sumC (fun c => (cnt0 c).2.1) kids ∧
    (summarize lang length_zero d kids).visibleDescendantCount = sumC (fun c => (cnt0 c).2.2) kids := by
  have hc := summarize_counts_eq lang length_zero d kids
  have hec := summarize_errorCost_eq lang length_zero d kids
  refine ⟨by rw [hec]; simp [he], ?_, ?_, ?_⟩
  · rw [hc.1]; exact sumSI_aliasFree lang _ ha (fun x => x.1) kids 0
  · rw [hc.2.1]; exact sumSI_aliasFree lang _ ha (fun x => x.2.1) kids 0
  · rw [hc.2.2]; exact sumSI_aliasFree lang _ ha (fun x => x.2.2) kids 0

/-- What a hidden, non-MISSING inner node whose symbol is not `_ERROR` adds to its parent's sums:
its own cached values. -/
theorem contrib_hidden (sym : Nat) (c : Tree) (hv : c.data.visible = false) (hm : c.data.isMissing = false)
    (hk : c.kids.length > 0) (hs : c.data.symbol ≠ symErrorRepeat) (he : isErrSym sym = false) :
    cnt0 c = (c.data.visibleChildCount, c.data.namedChildCount, c.data.visibleDescendantCount) ∧
    childErrorCost sym c = c.data.errorCost := by
  refine ⟨by simp [cnt0, hv, hk], ?_⟩
  unfold childErrorCost errorCostOf
  simp [hs, hm, he]

theorem sum_dropLast (g : Tree → Nat) (l : List Tree) (x : Tree) (h : l.getLast? = some x) : sumC g l = sumC g l.dropLast + g x := by
  have := dropLast_append_getLast l x h
  conv => lhs; rw [← this]
  rw [sumC_append]; simp [sumC]

theorem sumErr_dropLast (sym : Nat) (l : List Tree) (x : Tree) (h : l.getLast? = some x) :
    sumErr sym l = sumErr sym l.dropLast + childErrorCost sym x := by
  have := dropLast_append_getLast l x h
  conv => lhs; rw [← this]
  rw [sumErr_append]; simp [sumErr]

theorem rotP_parts (lang : Lang) (d : NodeData) (h : rotP lang d = true) :
    d.visible = false ∧ d.extra = false ∧ d.isMissing = false ∧ aliasFree lang d.productionId = true := by
  have : ((d.visible = false ∧ d.extra = false) ∧ d.isMissing = false) ∧ aliasFree lang d.productionId = true := by simpa [rotP] using h
  exact ⟨this.1.1.1, this.1.1.2, this.1.2, this.2⟩

theorem resummarize_data (lang : Lang) (d : NodeData) (c : Tree) (rest : List Tree) :
    (resummarize lang (.mk d (c :: rest))).data = summarize lang length_zero d (c :: rest) ∧
    (resummarize lang (.mk d (c :: rest))).kids = c :: rest := by
  simp [resummarize, Tree.data, Tree.kids]

theorem summarize_static (lang : Lang) (init : Length) (d : NodeData) (kids : List Tree) :
    (summarize lang init d kids).symbol = d.symbol ∧ (summarize lang init d kids).extra = d.extra ∧
    (summarize lang init d kids).visible = d.visible ∧ (summarize lang init d kids).named = d.named ∧
    (summarize lang init d kids).isMissing = d.isMissing ∧ (summarize lang init d kids).productionId = d.productionId ∧
    (summarize lang init d kids).refCount = d.refCount ∧ (summarize lang init d kids).isInline = d.isInline := by
  simp [summarize]

/-- **rotation_sums.**  One rotation `C = [G = [g₁ … gₚ], cs] ↦ G' = [g₁ … gₚ₋₁, C' = [gₚ, cs]]` of
hidden alias-free nodes of a non-error symbol: the new top node `G'` has the error cost and the three
counts the old top node `C` had (`C`, `G` summarized). -/
theorem rotation_sums (lang : Lang) (sym : Nat) (cd gd : NodeData) (gs cs : List Tree) (gp : Tree)
    (hcs : cd.symbol = sym) (hgs : gd.symbol = sym) (he : isErrSym sym = false)
    (hrc : rotP lang cd = true) (hrg : rotP lang gd = true) (hgl : gs.getLast? = some gp) (hgne : gs ≠ [])
    (hG : NodeOK lang gd gs) (hC : NodeOK lang cd (.mk gd gs :: cs)) :
    let C' := resummarize lang (.mk cd (gp :: cs))
    let G' := resummarize lang (.mk gd (gs.dropLast ++ [C']))
    G'.data.errorCost = cd.errorCost ∧ G'.data.visibleChildCount = cd.visibleChildCount ∧
    G'.data.namedChildCount = cd.namedChildCount ∧ G'.data.visibleDescendantCount = cd.visibleDescendantCount := by
  intro C' G'
  obtain ⟨hcv, hcx, hcm, hca⟩ := rotP_parts lang cd hrc
  obtain ⟨hgv, hgx, hgm, hga⟩ := rotP_parts lang gd hrg
  have hsne : sym ≠ symErrorRepeat := by
    intro h0; subst h0; simp [isErrSym] at he
  have hecd : isErrSym cd.symbol = false := by rw [hcs]; exact he
  have hegd : isErrSym gd.symbol = false := by rw [hgs]; exact he
  -- the old nodes, by NodeOK
  have hGs := summarize_rot lang gd gs hga hegd
  have hCs := summarize_rot lang cd (.mk gd gs :: cs) hca hecd
  unfold NodeOK at hG hC
  have hgk : (Tree.mk gd gs).kids.length > 0 := by
    cases gs with
    | nil => exact absurd rfl hgne
    | cons a b => simp [Tree.kids]
  have hGc := contrib_hidden sym (.mk gd gs) hgv hgm hgk (by simpa [Tree.data, hgs] using hsne) he
  simp only [Tree.data] at hGc
  -- the new nodes
  have hC'd : C'.data = summarize lang length_zero cd (gp :: cs) := (resummarize_data lang cd gp cs).1
  have hC's := summarize_rot lang cd (gp :: cs) hca hecd
  have hst := summarize_static lang length_zero cd (gp :: cs)
  have hC'k : C'.kids.length > 0 := by rw [(resummarize_data lang cd gp cs).2]; simp
  have hC'c := contrib_hidden sym C' (by rw [hC'd, hst.2.2.1]; exact hcv) (by rw [hC'd, hst.2.2.2.2.1]; exact hcm) hC'k
    (by rw [hC'd, hst.1, hcs]; exact hsne) he
  have hG'd : G'.data = summarize lang length_zero gd (gs.dropLast ++ [C']) := by
    show (resummarize lang (.mk gd (gs.dropLast ++ [C']))).data = _
    cases hdl : gs.dropLast ++ [C'] with
    | nil => simp at hdl
    | cons a b => exact (resummarize_data lang gd a b).1
  have hG's := summarize_rot lang gd (gs.dropLast ++ [C']) hga hegd
  rw [hG'd]
  rw [hgs] at hG's hGs
  rw [hcs] at hC's hCs
  refine ⟨?_, ?_, ?_, ?_⟩
  · rw [hG's.1, sumErr_append, hC.2.2.1, hCs.1]
    simp only [sumErr, Nat.add_zero]
    rw [hC'c.2, hC'd, hC's.1, hGc.2, hG.2.2.1, hGs.1, sumErr_dropLast sym gs gp hgl]
    simp only [sumErr]; omega
  · rw [hG's.2.1, sumC_append, hC.2.2.2.1, hCs.2.1]
    simp only [sumC, Nat.add_zero]
    rw [hC'c.1, hC'd, hC's.2.1, hGc.1, hG.2.2.2.1, hGs.2.1, sum_dropLast _ gs gp hgl]
    simp only [sumC]; omega
  · rw [hG's.2.2.1, sumC_append, hC.2.2.2.2.1, hCs.2.2.1]
    simp only [sumC, Nat.add_zero]
    rw [hC'c.1, hC'd, hC's.2.2.1, hGc.1, hG.2.2.2.2.1, hGs.2.2.1, sum_dropLast _ gs gp hgl]
    simp only [sumC]; omega
  · rw [hG's.2.2.2, sumC_append, hC.2.2.2.2.2, hCs.2.2.2]
    simp only [sumC, Nat.add_zero]
    rw [hC'c.1, hC'd, hC's.2.2.2, hGc.1, hG.2.2.2.2.2, hGs.2.2.2, sum_dropLast _ gs gp hgl]
    simp only [sumC]; omega


/-! ## `ts_subtree_compress` keeps the face of the tree -/

theorem allSym_mk (lang : Lang) (sym : Nat) (d : NodeData) (kids : List Tree) :
    allSym lang sym (.mk d kids) = ((d.symbol != sym || kids.isEmpty || rotP lang d) && allSymL lang sym kids) := by
  rw [allSym]

theorem allSymL_cons (lang : Lang) (sym : Nat) (c : Tree) (rest : List Tree) :
    allSymL lang sym (c :: rest) = (allSym lang sym c && allSymL lang sym rest) := by
  rw [allSymL]

theorem allSymL_append (lang : Lang) (sym : Nat) : ∀ (a b : List Tree), allSymL lang sym (a ++ b) = (allSymL lang sym a && allSymL lang sym b)
  | [], b => by simp [allSymL]
  | c :: a, b => by simp [allSymL_cons, allSymL_append lang sym a b, Bool.and_assoc]

theorem allSymL_dropLast (lang : Lang) (sym : Nat) (l : List Tree) (x : Tree) (h : l.getLast? = some x)
    (ha : allSymL lang sym l = true) : allSymL lang sym l.dropLast = true ∧ allSym lang sym x = true := by
  have := dropLast_append_getLast l x h
  rw [← this, allSymL_append] at ha
  simp only [allSymL_cons, Bool.and_eq_true] at ha
  exact ⟨ha.1, ha.2.1⟩

theorem rotP_summarize (lang : Lang) (init : Length) (d : NodeData) (kids : List Tree) : rotP lang (summarize lang init d kids) = rotP lang d := by
  have := summarize_static lang init d kids
  simp only [rotP, this.2.1, this.2.2.1, this.2.2.2.2.1, this.2.2.2.2.2.1]

theorem allSym_resummarize (lang : Lang) (sym : Nat) (d : NodeData) (kids : List Tree) :
    allSym lang sym (resummarize lang (.mk d kids)) = allSym lang sym (.mk d kids) := by
  cases kids with
  | nil => simp [resummarize]
  | cons c rest =>
    simp only [resummarize, allSym_mk, rotP_summarize, (summarize_static lang length_zero d (c :: rest)).1]

theorem allSymL_resummarizeLast (lang : Lang) (sym : Nat) : ∀ (l : List Tree), allSymL lang sym (resummarizeLast lang l) = allSymL lang sym l
  | [] => rfl
  | [c] => by
    obtain ⟨d, k⟩ := c
    simp only [resummarizeLast, allSymL_cons, allSym_resummarize]
  | c :: c' :: rest => by
    have ih := allSymL_resummarizeLast lang sym (c' :: rest)
    show allSymL lang sym (c :: resummarizeLast lang (c' :: rest)) = allSymL lang sym (c :: c' :: rest)
    rw [allSymL_cons, ih, ← allSymL_cons]

theorem dmk (d : NodeData) (k : List Tree) : (Tree.mk d k).data = d := rfl
theorem kmk (d : NodeData) (k : List Tree) : (Tree.mk d k).kids = k := rfl

/-- Re-summarizing a node over children with the faces of children for which it was summarized
gives the face it had. -/
theorem face_resummarize_congr (lang : Lang) (d : NodeData) (k : Tree) (rest : List Tree) (k' : Tree) (rest' : List Tree)
    (hn : NodeOK lang d (k :: rest)) (hmap : (k' :: rest').map face = (k :: rest).map face) :
    face (resummarize lang (.mk d (k' :: rest'))) = face (.mk d (k :: rest)) := by
  have hsix := summarize_six_congr lang d k' k rest' rest hmap
  unfold NodeOK at hn
  have hst := summarize_static lang length_zero d (k' :: rest')
  have e : resummarize lang (.mk d (k' :: rest')) = .mk (summarize lang length_zero d (k' :: rest')) (k' :: rest') := rfl
  rw [e]
  simp only [face, dmk, kmk, hst.1, hst.2.1, hst.2.2.1, hst.2.2.2.1, hst.2.2.2.2.1,
    hsix.1, hsix.2.1, hsix.2.2.1, hsix.2.2.2.1, hsix.2.2.2.2.1, hsix.2.2.2.2.2,
    ← hn.1, ← hn.2.1, ← hn.2.2.1, ← hn.2.2.2.1, ← hn.2.2.2.2.1, ← hn.2.2.2.2.2, List.length_cons]
  simp

/-- Re-summarizing a summarized node does not change its face. -/
theorem face_resummarize_summ (lang : Lang) (c : Tree) (h : Summarized lang c) : face (resummarize lang c) = face c := by
  obtain ⟨d, kids⟩ := c
  cases kids with
  | nil => simp [resummarize]
  | cons k rest =>
    exact face_resummarize_congr lang d k rest k rest (((summarized_mk lang d (k :: rest)).mp h).2.1 (by simp)) rfl

theorem face_map_resummarizeLast (lang : Lang) : ∀ (l : List Tree), SummarizedL lang l → (resummarizeLast lang l).map face = l.map face
  | [], _ => rfl
  | [c], h => by
    simp only [resummarizeLast, List.map_cons, List.map_nil]
    rw [face_resummarize_summ lang c ((summarizedL_cons lang c []).mp h).1]
  | c :: c' :: rest, h => by
    have := face_map_resummarizeLast lang (c' :: rest) ((summarizedL_cons lang c _).mp h).2
    show face c :: (resummarizeLast lang (c' :: rest)).map face = face c :: (c' :: rest).map face
    rw [this]

/-- `resummarize (.mk g.data (resummarizeLast g.kids))` — what the way back of `ts_subtree_compress`
does to the first child — keeps the face of a summarized node. -/
theorem face_pop (lang : Lang) (g : Tree) (h : Summarized lang g) :
    face (resummarize lang (.mk g.data (resummarizeLast lang g.kids))) = face g := by
  obtain ⟨d, kids⟩ := g
  rw [dmk, kmk]
  cases kids with
  | nil => simp [resummarizeLast, resummarize]
  | cons k rest =>
    have hk := ((summarized_mk lang d (k :: rest)).mp h)
    have hmap := face_map_resummarizeLast lang (k :: rest) hk.2.2
    cases hr : resummarizeLast lang (k :: rest) with
    | nil => exact absurd hr (resummarizeLast_ne_nil lang _ (by simp))
    | cons k' rest' =>
      rw [hr] at hmap
      exact face_resummarize_congr lang d k rest k' rest' (hk.2.1 (by simp)) hmap

/-- **compressGo_face.**  Under `rotOK` (the nodes of the rotated symbol are hidden, non-extra, not
MISSING and alias-free; the symbol is not an error symbol) `ts_subtree_compress` leaves the FACE of
the tree unchanged — everything the summary of a parent reads — and keeps the hypothesis. -/
theorem compressGo_face (lang : Lang) (sym : Nat) (he : isErrSym sym = false) : ∀ (i : Nat) (t : Tree), Summarized lang t →
    allSym lang sym t = true → t.data.symbol = sym →
    face (compressGo lang sym i t) = face t ∧ allSym lang sym (compressGo lang sym i t) = true ∧
      (compressGo lang sym i t).data.symbol = sym
  | 0, t, _, ha, hs => ⟨rfl, ha, hs⟩
  | i + 1, .mk d kids, h, ha, hs => by
    unfold compressGo
    split
    · exact ⟨rfl, ha, hs⟩
    · cases kids with
      | nil => exact ⟨rfl, ha, hs⟩
      | cons c ts =>
        obtain ⟨cd, ckids⟩ := c
        simp only
        split
        · exact ⟨rfl, ha, hs⟩
        · rename_i hcc
          cases ckids with
          | nil => exact ⟨rfl, ha, hs⟩
          | cons g cs =>
            obtain ⟨gd, gkids⟩ := g
            simp only
            split
            · exact ⟨rfl, ha, hs⟩
            · rename_i hgc
              cases hgl : gkids.getLast? with
              | none => exact ⟨rfl, ha, hs⟩
              | some gp =>
                simp only
                -- the conditions of the rotation
                simp only [Bool.or_eq_true, decide_eq_true_eq, bne_iff_ne, ne_eq, not_or, Decidable.not_not, List.length_cons] at hcc hgc
                have hcsym : cd.symbol = sym := hcc.2
                have hgsym : gd.symbol = sym := hgc.2
                have hgne : gkids ≠ [] := by intro h0; subst h0; simp at hgl
                -- summaries
                have hT := (summarized_mk lang _ _).mp h
                have hC := (summarized_mk lang _ _).mp ((summarizedL_cons lang _ _).mp hT.2.2).1
                have hG := (summarized_mk lang _ _).mp ((summarizedL_cons lang _ _).mp hC.2.2).1
                have hts := ((summarizedL_cons lang _ _).mp hT.2.2).2
                have hcs := ((summarizedL_cons lang _ _).mp hC.2.2).2
                have hgp := summarizedL_getLast lang gkids gp hG.2.2 hgl
                have hchild : Summarized lang (resummarize lang (.mk cd (gp :: cs))) :=
                  summarized_resummarize lang cd _ ((summarizedL_cons lang _ _).mpr ⟨hgp, hcs⟩) (by intro h0; simp at h0)
                have hgrand : Summarized lang (resummarize lang (.mk gd (gkids.dropLast ++ [resummarize lang (.mk cd (gp :: cs))]))) :=
                  summarized_resummarize lang gd _
                    ((summarizedL_append lang _ _).mpr ⟨summarizedL_dropLast lang _ hG.2.2,
                      (summarizedL_cons lang _ _).mpr ⟨hchild, summarizedL_nil lang⟩⟩) (by intro h0; simp at h0)
                -- the hypothesis on the nodes involved
                simp only [allSym_mk, allSymL_cons, Bool.and_eq_true, Bool.or_eq_true, bne_iff_ne, ne_eq, Tree.data, List.isEmpty_cons,
                  Bool.false_eq_true, or_false] at ha hs
                obtain ⟨hrd, ⟨⟨hrc, ⟨⟨hrg, hags⟩, hacs⟩⟩, hats⟩⟩ := ha
                have hrc' : rotP lang cd = true := by rcases hrc with h1 | h1; exact absurd hcsym h1; exact h1
                have hrg' : rotP lang gd = true := by
                  rcases hrg with h1 | h1
                  · rcases h1 with h2 | h2
                    · exact absurd hgsym h2
                    · exact absurd (by simpa using h2) hgne
                  · exact h1
                obtain ⟨hagd, hagp⟩ := allSymL_dropLast lang sym gkids gp hgl hags
                have haC' : allSym lang sym (resummarize lang (.mk cd (gp :: cs))) = true := by
                  rw [allSym_resummarize, allSym_mk]
                  simp [hrc', allSymL_cons, hagp, hacs]
                have haG' : allSym lang sym (resummarize lang (.mk gd (gkids.dropLast ++ [resummarize lang (.mk cd (gp :: cs))]))) = true := by
                  rw [allSym_resummarize, allSym_mk, allSymL_append]
                  simp [hrg', hagd, allSymL_cons, haC', allSymL]
                have hG'sym : (resummarize lang (.mk gd (gkids.dropLast ++ [resummarize lang (.mk cd (gp :: cs))]))).data.symbol = sym := by
                  cases hdl : gkids.dropLast ++ [resummarize lang (.mk cd (gp :: cs))] with
                  | nil => simp at hdl
                  | cons a b => rw [(resummarize_data lang gd a b).1, (summarize_static lang length_zero gd (a :: b)).1]; exact hgsym
                -- the face of G' is the face of C
                have hrot := rotation_sums lang sym cd gd gkids cs gp hcsym hgsym he hrc' hrg' hgl hgne (hG.2.1 hgne) (hC.2.1 (by simp))
                simp only at hrot
                obtain ⟨hcv, hcx, hcm, _⟩ := rotP_parts lang cd hrc'
                obtain ⟨hgv, hgx, hgm, _⟩ := rotP_parts lang gd hrg'
                have hlv : leaves (resummarize lang (.mk gd (gkids.dropLast ++ [resummarize lang (.mk cd (gp :: cs))]))) =
                    leaves (.mk cd (.mk gd gkids :: cs)) := by
                  rw [leaves_resummarize, leaves_node _ _ (by simp), leavesL_append]
                  simp only [leavesL, List.append_nil]
                  rw [leaves_resummarize, leaves_node _ _ (by simp), leaves_node _ _ (by simp)]
                  simp only [leavesL]
                  rw [leaves_node _ _ hgne, ← List.append_assoc]
                  congr 1
                  have hdl := dropLast_append_getLast gkids gp hgl
                  conv => rhs; rw [← hdl]
                  rw [leavesL_append]; simp [leavesL]
                have hext := sized_same_leaves (.mk cd (.mk gd gkids :: cs)) _ (sized_of_summarized lang _ ((summarizedL_cons lang _ _).mp hT.2.2).1)
                  (sized_of_summarized lang _ hgrand) hlv
                rw [dmk] at hext
                have hfaceG' : face (resummarize lang (.mk gd (gkids.dropLast ++ [resummarize lang (.mk cd (gp :: cs))]))) =
                    face (.mk cd (.mk gd gkids :: cs)) := by
                  cases hdl : gkids.dropLast ++ [resummarize lang (.mk cd (gp :: cs))] with
                  | nil => simp at hdl
                  | cons a b =>
                    rw [hdl] at hext hrot
                    have e : resummarize lang (.mk gd (a :: b)) = .mk (summarize lang length_zero gd (a :: b)) (a :: b) := rfl
                    rw [e] at hext hrot ⊢
                    rw [dmk] at hext hrot
                    have hst := summarize_static lang length_zero gd (a :: b)
                    simp only [face, dmk, kmk, hext.1, hext.2, hst.1, hst.2.1, hst.2.2.1, hst.2.2.2.2.1, hrot.1, hrot.2.1, hrot.2.2.1, hrot.2.2.2,
                      hgsym, hcsym, hgx, hcx, hgv, hcv, hgm, hcm, Bool.false_and, List.length_cons]
                    simp
                -- the recursive call
                have ih := compressGo_face lang sym he i _ hgrand haG' hG'sym
                have ihs := compressGo_summarized lang sym i _ hgrand
                generalize compressGo lang sym i (resummarize lang (.mk gd (gkids.dropLast ++ [resummarize lang (.mk cd (gp :: cs))]))) = g2 at ih ihs
                have hg3f : face (resummarize lang (.mk g2.data (resummarizeLast lang g2.kids))) = face (.mk cd (.mk gd gkids :: cs)) := by
                  rw [face_pop lang g2 ihs, ih.1, hfaceG']
                have hg3a : allSym lang sym (resummarize lang (.mk g2.data (resummarizeLast lang g2.kids))) = true := by
                  rw [allSym_resummarize, allSym_mk, allSymL_resummarizeLast]
                  have := ih.2.1
                  obtain ⟨g2d, g2k⟩ := g2
                  rw [allSym_mk] at this
                  simp only [Tree.data, Tree.kids]
                  cases g2k with
                  | nil => simpa [resummarizeLast] using this
                  | cons a b =>
                    have hne := resummarizeLast_ne_nil lang (a :: b) (by simp)
                    cases hr : resummarizeLast lang (a :: b) with
                    | nil => exact absurd hr hne
                    | cons a' b' => simpa using this
                -- the tree itself
                have hmap : (resummarize lang (.mk g2.data (resummarizeLast lang g2.kids)) :: ts).map face = (Tree.mk cd (.mk gd gkids :: cs) :: ts).map face := by
                  simp only [List.map_cons, hg3f]
                have hn := hT.2.1 (by simp)
                have hst := summarize_static lang length_zero d (resummarize lang (.mk g2.data (resummarizeLast lang g2.kids)) :: ts)
                refine ⟨?_, ?_, ?_⟩
                · exact face_resummarize_congr lang d _ ts _ ts hn hmap
                · rw [allSym_resummarize, allSym_mk, allSymL_cons]
                  simp only [Bool.and_eq_true, Bool.or_eq_true, bne_iff_ne, ne_eq, List.isEmpty_cons, Bool.false_eq_true, or_false]
                  exact ⟨hrd, hg3a, hats⟩
                · have e : ∀ x, resummarize lang (.mk d (x :: ts)) = .mk (summarize lang length_zero d (x :: ts)) (x :: ts) := fun _ => rfl
                  rw [e, dmk, hst.1]; exact hs


/-! ## The driver loop -/

theorem compress_symbol (lang : Lang) (count : Nat) (t : Tree) (hs : Summarized lang t) (hr : rotOK lang t = true) :
    face (compress lang count t) = face t ∧ rotOK lang (compress lang count t) = true ∧ Summarized lang (compress lang count t) := by
  unfold rotOK at hr
  simp only [Bool.and_eq_true, Bool.not_eq_true'] at hr
  have := compressGo_face lang t.data.symbol hr.1 count t hs hr.2 rfl
  unfold compress
  refine ⟨this.1, ?_, compressGo_summarized lang _ count t hs⟩
  unfold rotOK
  rw [this.2.2]
  simp [hr.1, this.2.1]

theorem foldl_compress_face (lang : Lang) : ∀ (l : List Nat) (t : Tree), Summarized lang t → rotOK lang t = true →
    face (l.foldl (fun acc i => compress lang i acc) t) = face t ∧ Summarized lang (l.foldl (fun acc i => compress lang i acc) t)
  | [], _, hs, _ => ⟨rfl, hs⟩
  | i :: l, t, hs, hr => by
    simp only [List.foldl]
    have h1 := compress_symbol lang i t hs hr
    have h2 := foldl_compress_face lang l _ h1.2.2 h1.2.1
    exact ⟨by rw [h2.1, h1.1], h2.2⟩

theorem balanceNode_face (lang : Lang) (t : Tree) (hs : Summarized lang t) (hr : compressesAt t = true → rotOK lang t = true) :
    face (balanceNode lang t) = face t ∧ Summarized lang (balanceNode lang t) := by
  unfold balanceNode
  unfold compressesAt at hr
  by_cases h1 : t.data.repeatDepth > 0
  · simp only [h1, if_true, decide_true, Bool.true_and] at hr ⊢
    cases hh : t.kids.head? with
    | none => exact ⟨by first | rfl | trivial, hs⟩
    | some c1 =>
      cases hl : t.kids.getLast? with
      | none => exact ⟨by first | rfl | trivial, hs⟩
      | some c2 =>
        rw [hh, hl] at hr
        simp only at hr ⊢
        by_cases h2 : c1.data.repeatDepth > c2.data.repeatDepth
        · simp only [h2, if_true]
          exact foldl_compress_face lang _ t hs (hr (by simp [h2]))
        · simp only [h2, if_false]
          exact ⟨by first | rfl | trivial, hs⟩
  · simp only [h1, if_false]
    exact ⟨by first | rfl | trivial, hs⟩

theorem balanceL_length (lang : Lang) (f : Nat) : ∀ (l : List Tree), (balanceL lang f l).length = l.length
  | [] => by simp [balanceL]
  | c :: rest => by simp [balanceL, balanceL_length lang f rest]

mutual
  /-- **balance_summarized.**  The whole driver loop `ts_parser__balance_subtree` keeps `Summarized` —
  every cached summary of every node — and the face of the tree, under `balanceOK`: wherever the loop
  calls `ts_subtree_compress`, the nodes of the rotated symbol are hidden, non-extra, not MISSING and
  alias-free, and the symbol is not an error symbol. -/
  theorem balance_summarized (lang : Lang) : ∀ (f : Nat) (t : Tree), Summarized lang t → balanceOK lang f t = true →
      Summarized lang (balance lang f t) ∧ face (balance lang f t) = face t
    | 0, t, hs, _ => by unfold balance; exact ⟨hs, rfl⟩
    | f + 1, t, hs, hok => by
      unfold balance
      unfold balanceOK at hok
      split
      · exact ⟨hs, rfl⟩
      · rename_i hc
        simp only [hc, if_false, Bool.and_eq_true, Bool.or_eq_true, Bool.not_eq_true', Bool.false_eq_true] at hok
        have hb := balanceNode_face lang t hs (by
          intro hca
          rcases hok.1 with h1 | h1
          · rw [hca] at h1; cases h1
          · exact h1)
        cases hbn : balanceNode lang t with
        | mk d kids =>
          rw [hbn] at hb hok
          simp only [Tree.kids] at hok
          have hk := (summarized_mk lang d kids).mp hb.2
          have hL := balanceL_summarized lang f kids hk.2.2 hok.2
          simp only
          refine ⟨?_, ?_⟩
          · rw [summarized_mk]
            refine ⟨?_, ?_, hL.1⟩
            · intro h0
              have : kids = [] := by
                have := balanceL_length lang f kids
                rw [h0] at this
                exact List.eq_nil_of_length_eq_zero this.symm
              exact hk.1 this
            · intro hne
              have hkne : kids ≠ [] := by intro h0; subst h0; simp [balanceL] at hne
              exact nodeOK_congr lang d kids _ hL.2.symm (hk.2.1 hkne)
          · rw [← hb.1]
            have hlen := balanceL_length lang f kids
            simp [face, dmk, kmk, hlen]
  theorem balanceL_summarized (lang : Lang) : ∀ (f : Nat) (l : List Tree), SummarizedL lang l → balanceOKL lang f l = true →
      SummarizedL lang (balanceL lang f l) ∧ (balanceL lang f l).map face = l.map face
    | f, [], h, _ => by unfold balanceL; exact ⟨h, rfl⟩
    | f, c :: rest, h, hok => by
      unfold balanceOKL at hok
      simp only [Bool.and_eq_true] at hok
      have hc := (summarizedL_cons lang c rest).mp h
      have h1 := balance_summarized lang f c hc.1 hok.1
      have h2 := balanceL_summarized lang f rest hc.2 hok.2
      simp only [balanceL, List.map_cons]
      exact ⟨(summarizedL_cons lang _ _).mpr ⟨h1.1, h2.1⟩, by rw [h1.2, h2.2]⟩
end


/-! ## Non-vacuity -/

def ref1 : Tree → Tree | .mk d k => .mk { d with refCount := 1 } k
/-- A left-deep chain of the hidden symbol 3 of `demoLang` (what a repeat rule produces), depth 4. -/
def chainA : Tree := newNode demoLang 3 [demoLeaf 0 1, demoLeaf 0 1] 0
def chainB : Tree := newNode demoLang 3 [chainA, demoLeaf 0 1] 0
def chainC : Tree := newNode demoLang 3 [chainB, demoLeaf 0 1] 0
def chain3 : Tree := ref1 (newNode demoLang 3 [chainC, demoLeaf 0 1] 0)

theorem chain3_summarized : Summarized demoLang chain3 := by
  have hl : Summarized demoLang (demoLeaf 0 1) := by
    rw [demoLeaf, newLeaf, summarized_mk]; exact ⟨fun _ => by unfold LeafOK; decide, fun h => absurd rfl h, summarizedL_nil _⟩
  have step : ∀ (d : NodeData) (a b : Tree), NodeOK demoLang d [a, b] → Summarized demoLang a → Summarized demoLang b →
      Summarized demoLang (.mk d [a, b]) := by
    intro d a b hn ha hb
    rw [summarized_mk]
    exact ⟨fun h => by simp at h, fun _ => hn, (summarizedL_cons _ _ _).mpr ⟨ha, (summarizedL_cons _ _ _).mpr ⟨hb, summarizedL_nil _⟩⟩⟩
  have hA : Summarized demoLang chainA := step _ _ _ (by unfold NodeOK; decide) hl hl
  have hB : Summarized demoLang chainB := step _ _ _ (by unfold NodeOK; decide) hA hl
  have hC : Summarized demoLang chainC := step _ _ _ (by unfold NodeOK; decide) hB hl
  exact step _ _ _ (by unfold NodeOK; decide) hC hl

theorem balanceOK_succ (lang : Lang) (f : Nat) (t : Tree) : balanceOK lang (f + 1) t =
    (if t.kids.isEmpty || t.data.refCount != 1 then true else
      (!compressesAt t || rotOK lang t) && balanceOKL lang f (balanceNode lang t).kids) := by rw [balanceOK]
theorem balanceOKL_zero (lang : Lang) : ∀ (l : List Tree), balanceOKL lang 0 l = true
  | [] => by rw [balanceOKL]
  | c :: rest => by rw [balanceOKL, balanceOK, balanceOKL_zero lang rest]; rfl

/-- The hypothesis holds for the chain (the loop DOES call `ts_subtree_compress` on it: repeat depth 3
against 0), and the rotations change its shape: the first child becomes a node with two inner children. -/
example : compressesAt chain3 = true ∧ rotOK demoLang chain3 = true := by decide
example : balanceOK demoLang 1 chain3 = true := by rw [balanceOK_succ, balanceOKL_zero]; decide
example : Summarized demoLang (balance demoLang 1 chain3) :=
  (balance_summarized demoLang 1 chain3 chain3_summarized (by rw [balanceOK_succ, balanceOKL_zero]; decide)).1
example : chain3.kids.head?.map (fun c => c.kids.map (·.kids.length)) = some [2, 0] ∧
    (compress demoLang 1 chain3).kids.head?.map (fun c => c.kids.map (·.kids.length)) = some [2, 2] := by decide

end TsVerif.C02
