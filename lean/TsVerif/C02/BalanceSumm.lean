import TsVerif.C02.BalanceProps
/-!
C02: `Summarized (balance t)` — the whole driver loop `ts_parser__balance_subtree` keeps every cached
summary, although it never summarizes a parent again after rebalancing its children.

Reason: what a parent's summary reads of a child (its `face`: padding, size, symbol, extra / visible /
named / MISSING flags, error cost, visible / named child counts, descendant count, whether it has
children) is not changed by rebalancing the child, PROVIDED the rotated nodes are hidden, non-extra,
not MISSING, their productions alias nothing and their symbol is not an error symbol (`rotOK`): then
the counts and the error cost of such a node are plain sums over its children, and a rotation
`[[g₁ … gₚ] c₂ … cₘ] ↦ [g₁ … gₚ₋₁ [gₚ c₂ … cₘ]]` only re-brackets those sums.

`balance_summarized`: `Summarized t → balanceOK f t → Summarized (balance f t) ∧ face (balance f t) = face t`,
where `balanceOK` checks `rotOK` wherever the loop actually calls `ts_subtree_compress`, on the tree as
it is at that moment (decidable; evaluated on every real rebalancing case by the driver).
-/
open TsGen TsVerif
namespace TsVerif.C02

/-! ## What a parent's summary reads of a child -/

def face (c : Tree) : Length × Length × Nat × Bool × Bool × Bool × Bool × Nat × Nat × Nat × Nat × Bool :=
  (c.data.padding, c.data.size, c.data.symbol, c.data.extra, c.data.visible, (c.data.visible && c.data.named), c.data.isMissing,
   c.data.errorCost, c.data.visibleChildCount, c.data.namedChildCount, c.data.visibleDescendantCount, decide (c.kids.length = 0))

theorem face_kids (a b : Tree) (h : face a = face b) : a.kids.length = 0 ↔ b.kids.length = 0 := by
  simp only [face, Prod.mk.injEq] at h
  simpa using h.2.2.2.2.2.2.2.2.2.2.2

theorem face_childCounts (lang : Lang) (pid si : Nat) (a b : Tree) (h : face a = face b) :
    childCounts lang pid si a = childCounts lang pid si b := by
  have hk := face_kids a b h
  simp only [face, Prod.mk.injEq] at h
  obtain ⟨_, _, hsym, hx, hv, hvn, _, _, hvcc, hncc, hvdc, _⟩ := h
  unfold childCounts aliasedAt
  rw [hsym, hx, hv, hvcc, hncc, hvdc]
  by_cases hvis : b.data.visible = true
  · have hn : a.data.named = b.data.named := by rw [hv] at hvn; simpa [hvis] using hvn
    simp only [hvis, hn, if_true]
  · simp only [hvis, Bool.false_eq_true, if_false]
    by_cases hb : b.kids.length = 0
    · have ha := hk.mpr hb
      simp [ha, hb]
    · have ha : ¬ a.kids.length = 0 := fun h0 => hb (hk.mp h0)
      have ha' : a.kids.length > 0 := by omega
      have hb' : b.kids.length > 0 := by omega
      simp [ha', hb']

theorem face_childErrorCost (sym : Nat) (a b : Tree) (h : face a = face b) : childErrorCost sym a = childErrorCost sym b := by
  have hk := face_kids a b h
  simp only [face, Prod.mk.injEq] at h
  obtain ⟨_, hs, hsym, hx, hv, _, hm, hec, hvcc, _, _, _⟩ := h
  unfold childErrorCost errorCostOf
  rw [hs, hsym, hx, hv, hm, hec, hvcc]
  by_cases hb : b.kids.length = 0
  · have ha := hk.mpr hb
    simp [ha, hb]
  · have ha : ¬ a.kids.length = 0 := fun h0 => hb (hk.mp h0)
    have ha' : a.kids.length > 0 := by omega
    have hb' : b.kids.length > 0 := by omega
    simp [ha, hb, ha', hb']

theorem face_totalSize (a b : Tree) (h : face a = face b) : a.totalSize = b.totalSize ∧ a.data.padding = b.data.padding ∧ a.data.size = b.data.size ∧ a.data.extra = b.data.extra := by
  simp only [face, Prod.mk.injEq] at h
  obtain ⟨hp, hs, _, hx, _⟩ := h
  exact ⟨by simp [Tree.totalSize, hp, hs], hp, hs, hx⟩

theorem sumSI_congr (f : Nat → Tree → Nat) (hf : ∀ si a b, face a = face b → f si a = f si b) :
    ∀ (kids kids' : List Tree) (si : Nat), kids.map face = kids'.map face → sumSI f kids si = sumSI f kids' si
  | [], [], _, _ => rfl
  | [], _ :: _, _, h => by simp at h
  | _ :: _, [], _, h => by simp at h
  | a :: kids, b :: kids', si, h => by
    simp only [List.map_cons, List.cons.injEq] at h
    simp only [sumSI]
    rw [hf si a b h.1, (face_totalSize a b h.1).2.2.2, sumSI_congr f hf kids kids' _ h.2]

theorem sumErr_congr (sym : Nat) : ∀ (kids kids' : List Tree), kids.map face = kids'.map face → sumErr sym kids = sumErr sym kids'
  | [], [], _ => rfl
  | [], _ :: _, h => by simp at h
  | _ :: _, [], h => by simp at h
  | a :: kids, b :: kids', h => by
    simp only [List.map_cons, List.cons.injEq] at h
    simp only [sumErr]
    rw [face_childErrorCost sym a b h.1, sumErr_congr sym kids kids' h.2]

theorem restSize_congr : ∀ (kids kids' : List Tree) (s : Length), kids.map face = kids'.map face → restSize kids s = restSize kids' s
  | [], [], _, _ => rfl
  | [], _ :: _, _, h => by simp at h
  | _ :: _, [], _, h => by simp at h
  | a :: kids, b :: kids', s, h => by
    simp only [List.map_cons, List.cons.injEq] at h
    simp only [restSize]
    rw [(face_totalSize a b h.1).1, restSize_congr kids kids' _ h.2]

/-- The six cached fields `NodeOK` speaks about depend on the children only through their faces. -/
theorem summarize_six_congr (lang : Lang) (d : NodeData) (c c' : Tree) (rest rest' : List Tree)
    (h : (c :: rest).map face = (c' :: rest').map face) :
    (summarize lang length_zero d (c :: rest)).padding = (summarize lang length_zero d (c' :: rest')).padding ∧
    (summarize lang length_zero d (c :: rest)).size = (summarize lang length_zero d (c' :: rest')).size ∧
    (summarize lang length_zero d (c :: rest)).errorCost = (summarize lang length_zero d (c' :: rest')).errorCost ∧
    (summarize lang length_zero d (c :: rest)).visibleChildCount = (summarize lang length_zero d (c' :: rest')).visibleChildCount ∧
    (summarize lang length_zero d (c :: rest)).namedChildCount = (summarize lang length_zero d (c' :: rest')).namedChildCount ∧
    (summarize lang length_zero d (c :: rest)).visibleDescendantCount = (summarize lang length_zero d (c' :: rest')).visibleDescendantCount := by
  have hps := summarize_padding_size lang length_zero d c rest
  have hps' := summarize_padding_size lang length_zero d c' rest'
  have hh := h
  simp only [List.map_cons, List.cons.injEq] at hh
  have hf := face_totalSize c c' hh.1
  have hsize : restSize rest c.data.size = restSize rest' c'.data.size := by rw [hf.2.2.1, restSize_congr rest rest' _ hh.2]
  have hc := summarize_counts_eq lang length_zero d (c :: rest)
  have hc' := summarize_counts_eq lang length_zero d (c' :: rest')
  have he := summarize_errorCost_eq lang length_zero d (c :: rest)
  have he' := summarize_errorCost_eq lang length_zero d (c' :: rest')
  have hl := (loop_padding_size_first lang d.symbol d.productionId c rest { padding := d.padding, size := length_zero }).2
  have hl' := (loop_padding_size_first lang d.symbol d.productionId c' rest' { padding := d.padding, size := length_zero }).2
  refine ⟨by rw [hps.1, hps'.1, hf.2.1], by rw [hps.2, hps'.2, hsize], ?_, ?_, ?_, ?_⟩
  · rw [he, he', hl, hl', sumErr_congr d.symbol _ _ h]
    simp only [kidsSize, hsize]
  · rw [hc.1, hc'.1]; exact sumSI_congr _ (fun si a b hab => by rw [face_childCounts lang _ si a b hab]) _ _ 0 h
  · rw [hc.2.1, hc'.2.1]; exact sumSI_congr _ (fun si a b hab => by rw [face_childCounts lang _ si a b hab]) _ _ 0 h
  · rw [hc.2.2, hc'.2.2]; exact sumSI_congr _ (fun si a b hab => by rw [face_childCounts lang _ si a b hab]) _ _ 0 h

/-- `NodeOK` is kept when the children are replaced by children with the same faces. -/
theorem nodeOK_congr (lang : Lang) (d : NodeData) (kids kids' : List Tree) (h : kids.map face = kids'.map face)
    (hok : NodeOK lang d kids) : NodeOK lang d kids' := by
  cases kids with
  | nil => cases kids' with
    | nil => exact hok
    | cons _ _ => simp at h
  | cons c rest =>
    cases kids' with
    | nil => simp at h
    | cons c' rest' =>
      have := summarize_six_congr lang d c c' rest rest' h
      unfold NodeOK at hok ⊢
      exact ⟨by rw [← this.1]; exact hok.1, by rw [← this.2.1]; exact hok.2.1, by rw [← this.2.2.1]; exact hok.2.2.1,
        by rw [← this.2.2.2.1]; exact hok.2.2.2.1, by rw [← this.2.2.2.2.1]; exact hok.2.2.2.2.1, by rw [← this.2.2.2.2.2]; exact hok.2.2.2.2.2⟩


/-! ## Alias-free, non-error nodes: counts and error cost are plain sums -/

theorem allZero_getD (a : Array Nat) (h : a.all (· == 0) = true) (i : Nat) : a.getD i 0 = 0 := by
  rw [Array.getD_eq_getD_getElem?]
  cases hi : a[i]? with
  | none => rfl
  | some x =>
    have := Array.all_eq_true.mp h
    obtain ⟨hlt, hx⟩ := Array.getElem?_eq_some_iff.mp hi
    have := this i hlt
    simp [hx] at this
    simp [this]

theorem aliasFree_at (lang : Lang) (pid : Nat) (h : aliasFree lang pid = true) (i : Nat) : lang.aliasAt pid i = 0 := by
  unfold aliasFree at h
  unfold Lang.aliasAt
  by_cases hp : pid = 0
  · simp [hp]
  · simp only [hp, if_false]
    have : (pid == 0) = false := by simpa using hp
    simp only [this, Bool.false_or] at h
    exact allZero_getD _ h i

/-- What a child adds to the three counts when the parent's production aliases nothing. -/
def cnt0 (c : Tree) : Nat × Nat × Nat :=
  if c.data.visible then (1, (if c.data.named then 1 else 0), c.data.visibleDescendantCount + 1)
  else if c.kids.length > 0 then (c.data.visibleChildCount, c.data.namedChildCount, c.data.visibleDescendantCount)
  else (0, 0, c.data.visibleDescendantCount)

theorem childCounts_aliasFree (lang : Lang) (pid si : Nat) (c : Tree) (h : aliasFree lang pid = true) :
    childCounts lang pid si c = cnt0 c := by
  unfold childCounts aliasedAt cnt0
  simp [aliasFree_at lang pid h si]

def sumC (g : Tree → Nat) : List Tree → Nat
  | [] => 0
  | c :: rest => g c + sumC g rest

theorem sumC_append (g : Tree → Nat) : ∀ (a b : List Tree), sumC g (a ++ b) = sumC g a + sumC g b
  | [], b => by simp [sumC]
  | c :: a, b => by simp [sumC, sumC_append g a b, Nat.add_assoc]

theorem sumErr_append (sym : Nat) : ∀ (a b : List Tree), sumErr sym (a ++ b) = sumErr sym a + sumErr sym b
  | [], b => by simp [sumErr]
  | c :: a, b => by simp [sumErr, sumErr_append sym a b, Nat.add_assoc]

theorem sumSI_aliasFree (lang : Lang) (pid : Nat) (h : aliasFree lang pid = true) (sel : Nat × Nat × Nat → Nat) :
    ∀ (kids : List Tree) (si : Nat), sumSI (fun si c => sel (childCounts lang pid si c)) kids si = sumC (fun c => sel (cnt0 c)) kids
  | [], _ => rfl
  | c :: rest, si => by
    simp only [sumSI, sumC]
    rw [childCounts_aliasFree lang pid si c h, sumSI_aliasFree lang pid h sel rest]

/-- The four summaries of a re-summarized alias-free node whose symbol is not an error symbol. -/
theorem summarize_rot (lang : Lang) (d : NodeData) (kids : List Tree) (ha : aliasFree lang d.productionId = true)
    (he : isErrSym d.symbol = false) :
    (summarize lang length_zero d kids).errorCost = sumErr d.symbol kids ∧
    (summarize lang length_zero d kids).visibleChildCount = sumC (fun c => (cnt0 c).1) kids ∧
    (summarize lang length_zero d kids).namedChildCount = sumC (fun c => (cnt0 c).2.1) kids ∧
    (summarize lang length_zero d kids).visibleDescendantCount = sumC (fun c => (cnt0 c).2.2) kids := by
  have hc := summarize_counts_eq lang length_zero d kids
  have hec := summarize_errorCost_eq lang length_zero d kids
  refine ⟨by rw [hec]; simp [he], ?_, ?_, ?_⟩
  · rw [hc.1]; exact sumSI_aliasFree lang _ ha (fun x => x.1) kids 0
  · rw [hc.2.1]; exact sumSI_aliasFree lang _ ha (fun x => x.2.1) kids 0
  · rw [hc.2.2]; exact sumSI_aliasFree lang _ ha (fun x => x.2.2) kids 0

/-- What a hidden, non-MISSING inner node whose symbol is not `_ERROR` adds to its parent's sums:
its own cached values. -/
theorem contrib_hidden (sym : Nat) (c : Tree) (hv : c.data.visible = false) (hm : c.data.isMissing = false)
    (hk : c.kids.length > 0) (hs : c.data.symbol ≠ symErrorRepeat) (he : isErrSym sym = false) :
    cnt0 c = (c.data.visibleChildCount, c.data.namedChildCount, c.data.visibleDescendantCount) ∧
    childErrorCost sym c = c.data.errorCost := by
  refine ⟨by simp [cnt0, hv, hk], ?_⟩
  unfold childErrorCost errorCostOf
  simp [hs, hm, he]

theorem sum_dropLast (g : Tree → Nat) (l : List Tree) (x : Tree) (h : l.getLast? = some x) : sumC g l = sumC g l.dropLast + g x := by
  have := dropLast_append_getLast l x h
  conv => lhs; rw [← this]
  rw [sumC_append]; simp [sumC]

theorem sumErr_dropLast (sym : Nat) (l : List Tree) (x : Tree) (h : l.getLast? = some x) :
    sumErr sym l = sumErr sym l.dropLast + childErrorCost sym x := by
  have := dropLast_append_getLast l x h
  conv => lhs; rw [← this]
  rw [sumErr_append]; simp [sumErr]

theorem rotP_parts (lang : Lang) (d : NodeData) (h : rotP lang d = true) :
    d.visible = false ∧ d.extra = false ∧ d.isMissing = false ∧ aliasFree lang d.productionId = true := by
  have : ((d.visible = false ∧ d.extra = false) ∧ d.isMissing = false) ∧ aliasFree lang d.productionId = true := by simpa [rotP] using h
  exact ⟨this.1.1.1, this.1.1.2, this.1.2, this.2⟩

theorem resummarize_data (lang : Lang) (d : NodeData) (c : Tree) (rest : List Tree) :
    (resummarize lang (.mk d (c :: rest))).data = summarize lang length_zero d (c :: rest) ∧
    (resummarize lang (.mk d (c :: rest))).kids = c :: rest := by
  simp [resummarize, Tree.data, Tree.kids]

theorem summarize_static (lang : Lang) (init : Length) (d : NodeData) (kids : List Tree) :
    (summarize lang init d kids).symbol = d.symbol ∧ (summarize lang init d kids).extra = d.extra ∧
    (summarize lang init d kids).visible = d.visible ∧ (summarize lang init d kids).named = d.named ∧
    (summarize lang init d kids).isMissing = d.isMissing ∧ (summarize lang init d kids).productionId = d.productionId ∧
    (summarize lang init d kids).refCount = d.refCount ∧ (summarize lang init d kids).isInline = d.isInline := by
  simp [summarize]

/-- **rotation_sums.**  One rotation `C = [G = [g₁ … gₚ], cs] ↦ G' = [g₁ … gₚ₋₁, C' = [gₚ, cs]]` of
hidden alias-free nodes of a non-error symbol: the new top node `G'` has the error cost and the three
counts the old top node `C` had (`C`, `G` summarized). -/
theorem rotation_sums (lang : Lang) (sym : Nat) (cd gd : NodeData) (gs cs : List Tree) (gp : Tree)
    (hcs : cd.symbol = sym) (hgs : gd.symbol = sym) (he : isErrSym sym = false)
    (hrc : rotP lang cd = true) (hrg : rotP lang gd = true) (hgl : gs.getLast? = some gp) (hgne : gs ≠ [])
    (hG : NodeOK lang gd gs) (hC : NodeOK lang cd (.mk gd gs :: cs)) :
    let C' := resummarize lang (.mk cd (gp :: cs))
    let G' := resummarize lang (.mk gd (gs.dropLast ++ [C']))
    G'.data.errorCost = cd.errorCost ∧ G'.data.visibleChildCount = cd.visibleChildCount ∧
    G'.data.namedChildCount = cd.namedChildCount ∧ G'.data.visibleDescendantCount = cd.visibleDescendantCount := by
  intro C' G'
  obtain ⟨hcv, hcx, hcm, hca⟩ := rotP_parts lang cd hrc
  obtain ⟨hgv, hgx, hgm, hga⟩ := rotP_parts lang gd hrg
  have hsne : sym ≠ symErrorRepeat := by
    intro h0; subst h0; simp [isErrSym] at he
  have hecd : isErrSym cd.symbol = false := by rw [hcs]; exact he
  have hegd : isErrSym gd.symbol = false := by rw [hgs]; exact he
  -- the old nodes, by NodeOK
  have hGs := summarize_rot lang gd gs hga hegd
  have hCs := summarize_rot lang cd (.mk gd gs :: cs) hca hecd
  unfold NodeOK at hG hC
  have hgk : (Tree.mk gd gs).kids.length > 0 := by
    cases gs with
    | nil => exact absurd rfl hgne
    | cons a b => simp [Tree.kids]
  have hGc := contrib_hidden sym (.mk gd gs) hgv hgm hgk (by simpa [Tree.data, hgs] using hsne) he
  simp only [Tree.data] at hGc
  -- the new nodes
  have hC'd : C'.data = summarize lang length_zero cd (gp :: cs) := (resummarize_data lang cd gp cs).1
  have hC's := summarize_rot lang cd (gp :: cs) hca hecd
  have hst := summarize_static lang length_zero cd (gp :: cs)
  have hC'k : C'.kids.length > 0 := by rw [(resummarize_data lang cd gp cs).2]; simp
  have hC'c := contrib_hidden sym C' (by rw [hC'd, hst.2.2.1]; exact hcv) (by rw [hC'd, hst.2.2.2.2.1]; exact hcm) hC'k
    (by rw [hC'd, hst.1, hcs]; exact hsne) he
  have hG'd : G'.data = summarize lang length_zero gd (gs.dropLast ++ [C']) := by
    show (resummarize lang (.mk gd (gs.dropLast ++ [C']))).data = _
    cases hdl : gs.dropLast ++ [C'] with
    | nil => simp at hdl
    | cons a b => exact (resummarize_data lang gd a b).1
  have hG's := summarize_rot lang gd (gs.dropLast ++ [C']) hga hegd
  rw [hG'd]
  rw [hgs] at hG's hGs
  rw [hcs] at hC's hCs
  refine ⟨?_, ?_, ?_, ?_⟩
  · rw [hG's.1, sumErr_append, hC.2.2.1, hCs.1]
    simp only [sumErr, Nat.add_zero]
    rw [hC'c.2, hC'd, hC's.1, hGc.2, hG.2.2.1, hGs.1, sumErr_dropLast sym gs gp hgl]
    simp only [sumErr]; omega
  · rw [hG's.2.1, sumC_append, hC.2.2.2.1, hCs.2.1]
    simp only [sumC, Nat.add_zero]
    rw [hC'c.1, hC'd, hC's.2.1, hGc.1, hG.2.2.2.1, hGs.2.1, sum_dropLast _ gs gp hgl]
    simp only [sumC]; omega
  · rw [hG's.2.2.1, sumC_append, hC.2.2.2.2.1, hCs.2.2.1]
    simp only [sumC, Nat.add_zero]
    rw [hC'c.1, hC'd, hC's.2.2.1, hGc.1, hG.2.2.2.2.1, hGs.2.2.1, sum_dropLast _ gs gp hgl]
    simp only [sumC]; omega
  · rw [hG's.2.2.2, sumC_append, hC.2.2.2.2.2, hCs.2.2.2]
    simp only [sumC, Nat.add_zero]
    rw [hC'c.1, hC'd, hC's.2.2.2, hGc.1, hG.2.2.2.2.2, hGs.2.2.2, sum_dropLast _ gs gp hgl]
    simp only [sumC]; omega

end TsVerif.C02
