import TsVerif.C02.Props
import TsVerif.C02.BalanceProps
import TsVerif.C02.LexYields
/-!
# C02 round 11 — the ASSEMBLY half of `Yields`: every tree a shift/reduce stack machine can build tiles the text consumed

`rowcol_by_newlines` needs `Sized root ∧ Yields root text`.  Round 10 proved the leaf half at the lexer level
(`lexed_leaf_yields`).  Here is the assembly half, over the port of `ts_subtree_new_node` /
`ts_subtree_summarize_children` (`newNode`, `summarize`, tied by T-corr on every inner node of every real tree):

* `newNode_sized`, `newNode_yields` — the node `ts_subtree_new_node` builds over ANY child list (empty too) whose
  members are `Sized` and spell consecutive pieces `YieldsL kids s` is `Sized` and spells the concatenation `s`;
* an abstract stack machine (`Op`, `stepOp`, `runOps`): `shift t piece` pushes a subtree (a fresh leaf of the lexer,
  or a REUSED subtree of the old tree — anything `Sized` that spells `piece`), `reduce n sym pid` pops the top `n`
  entries (any `n ≤` depth; the real `ts_stack_pop_count` counts non-extra entries — that is one such `n`), takes the
  trailing extras off the popped children (`ts_subtree_array_remove_trailing_extras`), builds the parent with `newNode`
  over the rest, pushes the parent and then the trailing extras again — the shape of `ts_parser__reduce`;
* `run_tiles` (invariant `Tiled`): after ANY sequence of such operations from the empty stack the forest on the stack
  (bottom to top) is `Sized` and spells exactly the concatenation of the pieces shifted so far, in order;
* `run_rowcol`: hence EVERY node of EVERY tree on the stack — hidden ones included — starts and ends at (byte offset,
  row/column by counting newlines) of the text consumed so far followed by any rest of the document (`AllAtL`);
  `run_root_rowcol`: when one tree is left it satisfies the conclusion of `rowcol_by_newlines` for the whole text;
* `shiftLexed_ok`: the shift hypothesis for a leaf lexed by the lexer port FROM WHERE THE CONSUMED TEXT ENDS
  (`l0.pos.bytes = consumed.length`): the consumed text stays a prefix of the document (`consumed ++ piece = text.take le`).

What this does NOT cover (still A): that the GLR driver performs only such operations on each version (version
splitting/merging shares stack prefixes: every single path is such a sequence; `ts_parser__recover` wraps popped
entries into ERROR nodes with `ts_subtree_new_error_node` = `newNode symError` — a `reduce`; skipped tokens are shifts;
MISSING leaves are shifts of an empty piece with padding of measure `[]`… read off parser.c, not ported), and that each
token is lexed from where the previous one ended (the hypothesis `l0.pos.bytes = consumed.length` of `shiftLexed_ok`).
-/
namespace TsVerif.C02
open TsGen TsVerif TsVerif.Lex

/-! ## One node -/

/-- `newNode_sized`: the node built by the port of `ts_subtree_new_node` over `Sized` children is `Sized`
(every language, symbol, production id, child list — the empty one included). -/
theorem newNode_sized (lang : Lang) (sym pid : Nat) (kids : List Tree) (h : SizedL kids) :
    Sized (newNode lang sym kids pid) := by
  unfold newNode
  unfold Sized
  refine ⟨?_, h⟩
  intro hne
  cases kids with
  | nil => exact absurd rfl hne
  | cons c rest => exact summarize_padding_size_aux lang length_zero _ c rest

theorem summarize_nil_padding_size (lang : Lang) (init : Length) (d : NodeData) :
    (summarize lang init d []).padding = d.padding ∧ (summarize lang init d []).size = init := by
  simp [summarize, loop]

/-- `newNode_yields`: if the children spell consecutive pieces of text whose concatenation is `s`, the new node
spells `s` (an empty reduction builds a node of padding and size `measure []`). -/
theorem newNode_yields (lang : Lang) (sym pid : Nat) (kids : List Tree) (s : List Nat) (h : YieldsL kids s) :
    Yields (newNode lang sym kids pid) s := by
  cases kids with
  | nil =>
    cases h
    unfold newNode
    have hp := summarize_nil_padding_size lang length_zero
      { (default : NodeData) with symbol := sym, visible := (lang.symMeta sym).visible, named := (lang.symMeta sym).named
                                  fragileLeft := isErrSym sym, fragileRight := isErrSym sym
                                  productionId := pid, ext := "-" }
    exact Yields.leaf _ [] [] (by rw [hp.1]; rfl) (by rw [hp.2]; rfl)
  | cons c rest =>
    unfold newNode
    exact Yields.node _ c rest s h

/-! ## The stack machine -/

/-- Operations of the abstract driver. -/
inductive Op where
  /-- push a subtree (fresh leaf or reused subtree) that spells `piece` -/
  | shift (t : Tree) (piece : List Nat)
  /-- pop `n` entries, build the parent of those that are not trailing extras, push parent and trailing extras -/
  | reduce (n sym pid : Nat)

/-- Stack (top first) after a reduction that pops `n` entries: `ts_parser__reduce`. -/
def reduceStack (lang : Lang) (st : List Tree) (n sym pid : Nat) : List Tree :=
  let popped := st.take n                                   -- top first
  let trailing := popped.takeWhile (·.data.extra)           -- `ts_subtree_array_remove_trailing_extras`
  let kids := (popped.dropWhile (·.data.extra)).reverse     -- text order
  trailing ++ newNode lang sym kids pid :: st.drop n

/-- One operation; returns the new stack and the text consumed so far.  An operation whose side condition fails
(popping below the stack) is not performed. -/
def stepOp (lang : Lang) : List Tree × List Nat → Op → List Tree × List Nat
  | (st, s), .shift t piece => (t :: st, s ++ piece)
  | (st, s), .reduce n sym pid => if n ≤ st.length then (reduceStack lang st n sym pid, s) else (st, s)

def runOps (lang : Lang) (ops : List Op) : List Tree × List Nat := ops.foldl (stepOp lang) ([], [])

/-- Side condition of an operation: what is shifted is `Sized` and spells its piece. -/
def OpOK : Op → Prop
  | .shift t piece => Sized t ∧ Yields t piece
  | .reduce _ _ _ => True

/-- The invariant: the forest on the stack, bottom to top, carries the summaries and spells the consumed text. -/
def Tiled (c : List Tree × List Nat) : Prop := SizedL c.1.reverse ∧ YieldsL c.1.reverse c.2

theorem yieldsL_single (t : Tree) (s : List Nat) : YieldsL [t] s ↔ Yields t s := by
  constructor
  · intro h
    cases h with
    | cons _ _ s1 s2 h1 h2 => cases h2; simpa using h1
  · intro h
    simpa using YieldsL.cons t [] s [] h .nil

/-- `reduce_tiles`: a reduction re-brackets the forest — it stays `Sized` and spells the same text. -/
theorem reduce_tiles (lang : Lang) (st : List Tree) (s : List Nat) (n sym pid : Nat) (h : Tiled (st, s)) :
    Tiled (reduceStack lang st n sym pid, s) := by
  obtain ⟨hs, hy⟩ := h
  simp only at hs hy
  have e1 : st = st.take n ++ st.drop n := (List.take_append_drop n st).symm
  have e2 : st.take n = (st.take n).takeWhile (·.data.extra) ++ (st.take n).dropWhile (·.data.extra) :=
    (List.takeWhile_append_dropWhile).symm
  generalize hT : (st.take n).takeWhile (·.data.extra) = tr at e2
  generalize hK : (st.take n).dropWhile (·.data.extra) = kr at e2
  have est : st.reverse = (st.drop n).reverse ++ (kr.reverse ++ tr.reverse) := by
    conv => lhs; rw [e1, e2]
    simp
  rw [est] at hs hy
  rw [sizedL_append, sizedL_append] at hs
  obtain ⟨u1, u23, hu, hy1, hy23⟩ := (yieldsL_append _ _ _).mp hy
  obtain ⟨u2, u3, hu', hy2, hy3⟩ := (yieldsL_append _ _ _).mp hy23
  have enew : (reduceStack lang st n sym pid).reverse =
      (st.drop n).reverse ++ ([newNode lang sym kr.reverse pid] ++ tr.reverse) := by
    simp [reduceStack, hT, hK]
  unfold Tiled
  simp only
  rw [enew]
  constructor
  · rw [sizedL_append, sizedL_append]
    refine ⟨hs.1, ?_, hs.2.2⟩
    unfold SizedL
    exact ⟨newNode_sized lang sym pid _ hs.2.1, by unfold SizedL; trivial⟩
  · apply (yieldsL_append _ _ _).mpr
    refine ⟨u1, u23, hu, hy1, ?_⟩
    apply (yieldsL_append _ _ _).mpr
    exact ⟨u2, u3, hu', (yieldsL_single _ _).mpr (newNode_yields lang sym pid _ u2 hy2), hy3⟩

/-- `step_tiles`: every operation keeps the invariant. -/
theorem step_tiles (lang : Lang) (c : List Tree × List Nat) (op : Op) (hop : OpOK op) (h : Tiled c) :
    Tiled (stepOp lang c op) := by
  obtain ⟨st, s⟩ := c
  cases op with
  | shift t piece =>
    obtain ⟨h1, h2⟩ := h
    simp only at h1 h2
    simp only [stepOp, Tiled, List.reverse_cons]
    constructor
    · rw [sizedL_append]
      exact ⟨h1, by unfold SizedL; exact ⟨hop.1, by unfold SizedL; trivial⟩⟩
    · exact (yieldsL_append _ _ _).mpr ⟨s, piece, rfl, h2, (yieldsL_single _ _).mpr hop.2⟩
  | reduce n sym pid =>
    simp only [stepOp]
    split
    · exact reduce_tiles lang st s n sym pid h
    · exact h

theorem foldl_tiles (lang : Lang) : ∀ (ops : List Op) (c : List Tree × List Nat), (∀ op ∈ ops, OpOK op) → Tiled c →
    Tiled (ops.foldl (stepOp lang) c)
  | [], _, _, h => h
  | op :: rest, c, hok, h => by
    simp only [List.foldl_cons]
    exact foldl_tiles lang rest _ (fun o ho => hok o (List.mem_cons_of_mem _ ho))
      (step_tiles lang c op (hok op List.mem_cons_self) h)

/-- **run_tiles.**  After ANY sequence of shifts (of subtrees that spell their pieces) and reductions (any pop
counts, symbols, production ids) from the empty stack, the forest on the stack is `Sized` and spells exactly the
text consumed so far. -/
theorem run_tiles (lang : Lang) (ops : List Op) (hok : ∀ op ∈ ops, OpOK op) : Tiled (runOps lang ops) :=
  foldl_tiles lang ops ([], []) hok ⟨by simp [SizedL], by simpa using YieldsL.nil⟩

/-- The text consumed is the concatenation of the pieces shifted, whatever reductions happen in between. -/
def shifted : List Op → List Nat
  | [] => []
  | .shift _ piece :: rest => piece ++ shifted rest
  | .reduce _ _ _ :: rest => shifted rest

theorem foldl_consumed (lang : Lang) : ∀ (ops : List Op) (c : List Tree × List Nat),
    (ops.foldl (stepOp lang) c).2 = c.2 ++ shifted ops
  | [], c => by simp [shifted]
  | .shift t piece :: rest, (st, s) => by
    simp only [List.foldl_cons, stepOp, shifted]
    rw [foldl_consumed lang rest]
    simp
  | .reduce n sym pid :: rest, (st, s) => by
    simp only [List.foldl_cons, stepOp, shifted]
    split <;> rw [foldl_consumed lang rest]

theorem run_consumed (lang : Lang) (ops : List Op) : (runOps lang ops).2 = shifted ops := by
  simp [runOps, foldl_consumed]

/-- **run_rowcol.**  For every document `text` that starts with the consumed text: EVERY node of EVERY tree on the
stack (hidden nodes too) has start and end — computed by adding relative lengths along the path, the trees laid out
one after the other from position zero — equal to (byte offset, row/column by counting newlines in `text`). -/
theorem run_rowcol (lang : Lang) (ops : List Op) (hok : ∀ op ∈ ops, OpOK op) (post : List Nat) :
    AllAtL ((runOps lang ops).2 ++ post) (runOps lang ops).1.reverse length_zero := by
  obtain ⟨hs, hy⟩ := run_tiles lang ops hok
  exact rowcolL_aux _ _ [] post _ length_zero hs hy (by simp) (by simp [measure, extentOf, length_zero])

/-- **run_root_rowcol.**  When the machine ends with ONE tree on the stack, that tree is `Sized`, spells the whole
consumed text, and satisfies the row/column clause for it. -/
theorem run_root_rowcol (lang : Lang) (ops : List Op) (hok : ∀ op ∈ ops, OpOK op) (root : Tree)
    (h1 : (runOps lang ops).1 = [root]) :
    Sized root ∧ Yields root (shifted ops) ∧ AllAt (shifted ops) root length_zero := by
  obtain ⟨hs, hy⟩ := run_tiles lang ops hok
  rw [h1] at hs hy
  rw [run_consumed] at hy
  simp only [List.reverse_cons, List.reverse_nil, List.nil_append] at hs hy
  unfold SizedL at hs
  have hy' := (yieldsL_single _ _).mp hy
  exact ⟨hs.1, hy', rowcol_by_newlines root _ hs.1 hy'⟩

/-- **shiftLexed_ok.**  The shift of a leaf whose padding / size `ts_parser__lex` computes from three positions of
the lexer port (`LInv`: reachable states, `lexer_position_is_measure`), lexing having started where the consumed text
ends: the operation satisfies `OpOK`, and the consumed text stays a prefix of the document. -/
theorem shiftLexed_ok (text consumed : List Nat) (d : NodeData) (l0 ls le : Lexer)
    (h0 : LInv text l0) (hs : LInv text ls) (he : LInv text le)
    (h1 : l0.pos.bytes ≤ ls.pos.bytes) (h2 : ls.pos.bytes ≤ le.pos.bytes)
    (hp : d.padding = length_sub ls.pos l0.pos) (hz : d.size = length_sub le.pos ls.pos)
    (hc : consumed = text.take l0.pos.bytes) :
    let piece := (text.drop l0.pos.bytes).take (le.pos.bytes - l0.pos.bytes)
    OpOK (.shift (.mk d []) piece) ∧ consumed ++ piece = text.take le.pos.bytes := by
  intro piece
  refine ⟨⟨?_, lexed_leaf_yields text d l0 ls le h0 hs he h1 h2 hp hz⟩, ?_⟩
  · unfold Sized
    exact ⟨fun h => absurd rfl h, by unfold SizedL; trivial⟩
  · subst hc
    have : le.pos.bytes = l0.pos.bytes + (le.pos.bytes - l0.pos.bytes) := by omega
    conv => rhs; rw [this]
    exact (take_add_drop text _ _).symm

/-! ## Leaves made by the constructor ports are legal shifts -/

theorem leaf_sized (d : NodeData) : Sized (.mk d []) := by
  unfold Sized
  exact ⟨fun h => absurd rfl h, by unfold SizedL; trivial⟩

/-- `newLeaf_shift_ok`: the leaf `ts_subtree_new_leaf` builds from a padding and a size that measure two consecutive
pieces of text is a legal shift of those pieces (any language, symbol, look-ahead, state, flags). -/
theorem newLeaf_shift_ok (lang : Lang) (symbol : Nat) (p q : List Nat) (lookahead parseState : Nat) (x y z : Bool) :
    OpOK (.shift (newLeaf lang symbol (measure p) (measure q) lookahead parseState x y z) (p ++ q)) := by
  unfold newLeaf
  exact ⟨leaf_sized _, Yields.leaf _ p q rfl rfl⟩

/-- `newMissingLeaf_shift_ok`: a MISSING leaf (`ts_subtree_new_missing_leaf`) whose padding measures `p` is a legal
shift of `p` alone — it consumes its padding and nothing else. -/
theorem newMissingLeaf_shift_ok (lang : Lang) (symbol state : Nat) (p : List Nat) (lookahead : Nat) :
    OpOK (.shift (newMissingLeaf lang symbol state (measure p) lookahead) p) := by
  unfold newMissingLeaf newLeaf
  refine ⟨leaf_sized _, ?_⟩
  have := Yields.leaf { (default : NodeData) with
        symbol := symbol, padding := measure p, size := length_zero, lookahead := lookahead, parseState := state
        visible := (lang.symMeta symbol).visible, named := (lang.symMeta symbol).named, extra := symbol == symEnd
        isKeyword := false
        isInline := decide (symbol ≤ 255) && !false && ts_subtree_can_inline (measure p) length_zero lookahead
        hasExternalTokens := !(decide (symbol ≤ 255) && !false && ts_subtree_can_inline (measure p) length_zero lookahead) && false
        dependsOnColumn := !(decide (symbol ≤ 255) && !false && ts_subtree_can_inline (measure p) length_zero lookahead) && false
        errorCost := 0, ext := "-", isMissing := true } p [] rfl rfl
  simpa using this

/-- `newErrorLeaf_shift_ok`: the ERROR leaf of `ts_subtree_new_error` (skipped characters) likewise. -/
theorem newErrorLeaf_shift_ok (lang : Lang) (p q : List Nat) (bytesScanned parseState : Nat) :
    OpOK (.shift (newErrorLeaf lang (measure p) (measure q) bytesScanned parseState) (p ++ q)) := by
  unfold newErrorLeaf newLeaf
  exact ⟨leaf_sized _, Yields.leaf _ p q rfl rfl⟩

/-! ## The accept step (`ts_parser__accept`): the root is REBUILT from the forest on the stack -/

/-- Split a forest (text order) at its LAST non-extra tree: `(before, tree, after)`, `after` all extras —
the `for (j = trees.size - 1; …) if (!ts_subtree_extra(tree))` of `ts_parser__accept`. -/
def splitLastNonExtra (forest : List Tree) : Option (List Tree × Tree × List Tree) :=
  match forest.reverse.dropWhile (·.data.extra) with
  | [] => none
  | t :: beforeRev => some (beforeRev.reverse, t, (forest.reverse.takeWhile (·.data.extra)).reverse)

/-- `ts_parser__accept` for one popped slice: the last non-extra tree is replaced by its children (`array_splice`),
the root is `ts_subtree_new_node(symbol(tree), trees, production_id)`, and the part of the dynamic precedence that
came from the tree's own production is added back.  `none` = the `ts_assert(root.ptr)` would fail. -/
def acceptRoot (lang : Lang) (forest : List Tree) : Option Tree :=
  match splitLastNonExtra forest with
  | none => none
  | some (before, t, after) =>
    let own : Int := t.data.dynamicPrecedence - (t.kids.map (·.data.dynamicPrecedence)).foldl (· + ·) 0
    match newNode lang t.data.symbol (before ++ t.kids ++ after) t.data.productionId with
    | .mk d ks => some (.mk { d with dynamicPrecedence := d.dynamicPrecedence + own } ks)

theorem dropWhile_head_false (p : Tree → Bool) : ∀ (l : List Tree) (t : Tree) (r : List Tree),
    l.dropWhile p = t :: r → p t = false
  | [], _, _, h => by simp at h
  | x :: l, t, r, h => by
    simp only [List.dropWhile_cons] at h
    split at h
    · exact dropWhile_head_false p l t r h
    · rename_i hx
      simp only [List.cons.injEq] at h
      rw [← h.1]
      simpa using hx

theorem split_spec (forest before after : List Tree) (t : Tree) (h : splitLastNonExtra forest = some (before, t, after)) :
    forest = before ++ [t] ++ after := by
  unfold splitLastNonExtra at h
  have e := (List.takeWhile_append_dropWhile (p := fun (x : Tree) => x.data.extra) (l := forest.reverse)).symm
  split at h
  · contradiction
  · rename_i t' br hd
    simp only [Option.some.injEq, Prod.mk.injEq] at h
    obtain ⟨rfl, rfl, rfl⟩ := h
    rw [hd] at e
    have := congrArg List.reverse e
    simpa using this

theorem sized_setDyn (d : NodeData) (ks : List Tree) (x : Int) (h : Sized (.mk d ks)) :
    Sized (.mk { d with dynamicPrecedence := x } ks) := by
  unfold Sized at h ⊢
  exact h

theorem yields_setDyn (d : NodeData) (ks : List Tree) (x : Int) (s : List Nat) (h : Yields (.mk d ks) s) :
    Yields (.mk { d with dynamicPrecedence := x } ks) s := by
  cases h with
  | leaf _ p q hp hq => exact Yields.leaf _ p q hp hq
  | node _ c rest _ hl => exact Yields.node _ c rest s hl

theorem measure_zero_bytes (p : List Nat) (h : (measure p).bytes = 0) : p = [] := by
  rw [measure_bytes] at h
  exact List.eq_nil_of_length_eq_zero h

/-- The children of a tree spell what the tree spells — for a childless tree only if it is empty. -/
theorem yields_kids (t : Tree) (s : List Nat) (h : Yields t s)
    (hz : t.kids = [] → t.data.padding.bytes = 0 ∧ t.data.size.bytes = 0) : YieldsL t.kids s := by
  cases h with
  | leaf d p q hp hq =>
    have hz' := hz rfl
    simp only [Tree.data] at hz'
    rw [hp, hq] at hz'
    rw [measure_zero_bytes p hz'.1, measure_zero_bytes q hz'.2]
    exact .nil
  | node d c rest _ hl => exact hl

/-- **accept_tiles.**  The root `ts_parser__accept` rebuilds from a `Sized` forest that spells `s` is `Sized`, spells
`s`, and every node of it sits at the byte / row / column of its text — provided the tree that is spliced away is not
a NON-EMPTY childless node (its text would belong to no node; the real code asserts it is not inline; in a parse it is
the start rule's node, childless only for a document without tokens). -/
theorem accept_tiles (lang : Lang) (forest : List Tree) (s : List Nat) (root : Tree)
    (hs : SizedL forest) (hy : YieldsL forest s) (hr : acceptRoot lang forest = some root)
    (hz : ∀ t ∈ forest, t.data.extra = false → t.kids = [] → t.data.padding.bytes = 0 ∧ t.data.size.bytes = 0) :
    Sized root ∧ Yields root s ∧ AllAt s root length_zero := by
  unfold acceptRoot at hr
  split at hr
  · contradiction
  · rename_i before t after hsp
    have hf := split_spec forest before after t hsp
    -- the chosen tree is not extra
    have hne : t.data.extra = false := by
      unfold splitLastNonExtra at hsp
      split at hsp
      · contradiction
      · rename_i t' br hd
        simp only [Option.some.injEq, Prod.mk.injEq] at hsp
        obtain ⟨_, rfl, _⟩ := hsp
        exact dropWhile_head_false _ _ _ _ hd
    subst hf
    rw [sizedL_append, sizedL_append] at hs
    obtain ⟨u12, u3, hu, hy12, hy3⟩ := (yieldsL_append _ _ _).mp hy
    obtain ⟨u1, u2, hu', hy1, hy2⟩ := (yieldsL_append _ _ _).mp hy12
    have hyt := (yieldsL_single _ _).mp hy2
    have hst : Sized t := by have := hs.1.2; unfold SizedL at this; exact this.1
    have hkS : SizedL t.kids := by
      obtain ⟨d, ks⟩ := t
      unfold Sized at hst
      exact hst.2
    have hkY : YieldsL t.kids u2 := yields_kids t u2 hyt (hz t (by simp) hne)
    have hS : SizedL (before ++ t.kids ++ after) := by
      rw [sizedL_append, sizedL_append]; exact ⟨⟨hs.1.1, hkS⟩, hs.2⟩
    have hY : YieldsL (before ++ t.kids ++ after) s :=
      (yieldsL_append _ _ _).mpr ⟨u12, u3, hu, (yieldsL_append _ _ _).mpr ⟨u1, u2, hu', hy1, hkY⟩, hy3⟩
    have h1 := newNode_sized lang t.data.symbol t.data.productionId _ hS
    have h2 := newNode_yields lang t.data.symbol t.data.productionId _ s hY
    generalize newNode lang t.data.symbol (before ++ t.kids ++ after) t.data.productionId = nn at hr h1 h2
    obtain ⟨d, ks⟩ := nn
    simp only [Option.some.injEq] at hr
    subst hr
    refine ⟨sized_setDyn d ks _ h1, yields_setDyn d ks _ s h2, ?_⟩
    exact rowcol_by_newlines _ s (sized_setDyn d ks _ h1) (yields_setDyn d ks _ s h2)

/-- **parse_tiles.**  Shift/reduce in any order, then accept: the finished tree is `Sized`, spells exactly the pieces
shifted (in order), and every node of it — hidden ones included — has start and end equal to (byte offset, row/column
by counting newlines) in that text. -/
theorem parse_tiles (lang : Lang) (ops : List Op) (hok : ∀ op ∈ ops, OpOK op) (root : Tree)
    (hr : acceptRoot lang (runOps lang ops).1.reverse = some root)
    (hz : ∀ t ∈ (runOps lang ops).1, t.data.extra = false → t.kids = [] → t.data.padding.bytes = 0 ∧ t.data.size.bytes = 0) :
    Sized root ∧ Yields root (shifted ops) ∧ AllAt (shifted ops) root length_zero := by
  obtain ⟨hs, hy⟩ := run_tiles lang ops hok
  rw [run_consumed] at hy
  exact accept_tiles lang _ _ root hs hy hr (fun t ht => hz t (by simpa using ht))

/-! ## Non-vacuity: `a\nb` parsed as (1: (2: a) NL-extra (2: b)) with the newline re-pushed after an inner reduction -/

def nvLeaf (sym : Nat) (extra : Bool) (p q : List Nat) : Tree :=
  .mk { (default : NodeData) with symbol := sym, extra := extra, padding := measure p, size := measure q } []

def nvOps : List Op :=
  [ .shift (nvLeaf 3 false [] [97]) [97],
    .shift (nvLeaf 4 true [] [10]) [10],
    .reduce 2 2 0,                         -- pops `a` and the newline; the newline is a trailing extra: pushed back
    .shift (nvLeaf 3 false [32] [98]) [32, 98],
    .reduce 1 2 0,
    .reduce 3 1 0 ]

theorem nvOps_ok : ∀ op ∈ nvOps, OpOK op := by
  intro op h
  simp only [nvOps, List.mem_cons, List.not_mem_nil, or_false] at h
  have hl : ∀ sym extra p q, OpOK (.shift (nvLeaf sym extra p q) (p ++ q)) := fun sym extra p q =>
    ⟨by unfold Sized; exact ⟨fun h => absurd rfl h, by unfold SizedL; trivial⟩, Yields.leaf _ p q rfl rfl⟩
  rcases h with rfl | rfl | rfl | rfl | rfl | rfl
  · exact hl 3 false [] [97]
  · exact hl 4 true [] [10]
  · trivial
  · exact hl 3 false [32] [98]
  · trivial
  · trivial

/-- the run ends with one tree of three children (the middle one the re-pushed newline) spelling `a\n b` … -/
example : ((runOps demoLang nvOps).1.map fun t => (t.data.symbol, t.kids.map (·.data.symbol), t.data.padding, t.data.size)) =
    [(1, [2, 4, 2], ⟨0, ⟨0, 0⟩⟩, ⟨4, ⟨1, 2⟩⟩)] ∧ (runOps demoLang nvOps).2 = [97, 10, 32, 98] := by decide
/-- … and the theorems apply to it -/
example := run_tiles demoLang nvOps nvOps_ok
example := run_rowcol demoLang nvOps nvOps_ok []

/-- accept after shifting an end-of-input leaf (extra) with trailing blank: the root is rebuilt with FOUR children. -/
def nvOps2 : List Op := nvOps ++ [ .shift (nvLeaf 0 true [32] []) [32] ]

theorem nvOps2_ok : ∀ op ∈ nvOps2, OpOK op := by
  intro op h
  simp only [nvOps2, List.mem_append, List.mem_cons, List.not_mem_nil, or_false] at h
  rcases h with h | rfl
  · exact nvOps_ok op h
  · exact ⟨leaf_sized _, Yields.leaf _ [32] [] rfl rfl⟩

example : ((acceptRoot demoLang (runOps demoLang nvOps2).1.reverse).map fun t =>
      (t.data.symbol, t.kids.map (·.data.symbol), t.data.padding, t.data.size)) =
    some (1, [2, 4, 2, 0], ⟨0, ⟨0, 0⟩⟩, ⟨5, ⟨1, 3⟩⟩) := by decide
example : ∀ t ∈ (runOps demoLang nvOps2).1, t.data.extra = false → t.kids = [] →
    t.data.padding.bytes = 0 ∧ t.data.size.bytes = 0 := by decide
/-- `parse_tiles` applies: the accepted root of `a\n b ` has every node at its newline-counted position -/
example : ∃ root, acceptRoot demoLang (runOps demoLang nvOps2).1.reverse = some root ∧
    Yields root [97, 10, 32, 98, 32] ∧ AllAt [97, 10, 32, 98, 32] root length_zero := by
  have hs : (acceptRoot demoLang (runOps demoLang nvOps2).1.reverse).isSome = true := by decide
  obtain ⟨root, hr⟩ := Option.isSome_iff_exists.mp hs
  have h := parse_tiles demoLang nvOps2 nvOps2_ok root hr (by decide)
  exact ⟨root, hr, h.2.1, h.2.2⟩

end TsVerif.C02
