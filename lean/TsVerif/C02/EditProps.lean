import TsVerif.C02.Props
import TsVerif.C10.Props
/-!
# C02 — "for every tree obtained after any edit history" (second Props file of C02)

Imports C10's edit theorems (`TsVerif.C10`: port of `ts_subtree_edit`, `WFb` byte tiling, `Cons`
consistency with a text, `edits_consistent` for all finite histories) and ties C02's notions to
them, so that one text model and one checker serve both properties:

* `measure_eq_lengthOf` — C02's `measure`/`extentOf` is C10's `lengthOf`/`extent`;
* `sized_wfb` — the byte projection of `Sized` (summaries) is `WFb`;
* `yields_cons` — a summarized tree whose LEAVES measure the text is `Cons` (EVERY node stores the
  text's extents): `Yields`, the hypothesis of `rowcol_by_newlines`, has the same content as C10's
  `Cons` restricted to leaves;
* `edit_preserves_summaries` — after ANY finite history of correctly described text edits
  (`HistOK`) the edited tree still tiles in bytes and is consistent with the current text;
* `wfb_nested`, `edited_spans_nested` — hence the containment clause holds for every edited tree.
(The full cached summaries — counts, error cost — are untouched by `ts_subtree_edit`: C10's
`edit_shape`.)
-/
open TsGen TsVerif
namespace TsVerif.C02

theorem extentOf_eq_extent : ∀ s : List Nat, extentOf s = extent s
  | [] => rfl
  | b :: rest => by
    simp only [extentOf, extent, charExtent]
    rw [extentOf_eq_extent rest]
    by_cases hb : b = 10
    · simp only [hb, if_true]
      unfold point_add point__new
      by_cases hr : (extent rest).row > 0 <;> simp [hr] <;> omega
    · simp only [hb, if_false]
      unfold point_add point__new
      by_cases hr : (extent rest).row > 0
      · have : ¬ (extent rest).row = 0 := by omega
        simp [hr, this]
      · have : (extent rest).row = 0 := by omega
        simp [this]; omega

/-- C02's measure of a byte string is C10's `lengthOf` (same text model). -/
theorem measure_eq_lengthOf (s : List Nat) : measure s = lengthOf s := by
  simp [measure, lengthOf, extentOf_eq_extent]

theorem slice_mid (a b c : List Nat) : C10.slice (a ++ b ++ c) a.length (a.length + b.length) = b := by
  unfold C10.slice
  simp [List.append_assoc]

theorem sumBytes_eq_sumT : ∀ ks : List Tree, sumBytes ks = C10.sumT ks
  | [] => rfl
  | c :: rest => by simp [sumBytes, C10.tb, Tree.totalBytes, sumBytes_eq_sumT rest]

mutual
  /-- The byte projection of `Sized` is C10's tiling invariant `WFb`. -/
  theorem sized_wfb : ∀ t : Tree, Sized t → C10.WFb t
    | .mk d [], _ => C10.WFb.leaf d
    | .mk d (c :: rest), h => by
      unfold Sized at h
      have hps := h.1 (by simp)
      have hl := h.2
      unfold SizedL at hl
      refine C10.WFb.node d c rest (sized_wfb c hl.1) (sizedL_wfbL rest hl.2) ?_ ?_
      · rw [hps.1]; rfl
      · rw [hps.1, hps.2]
        simp only [kidsPadding, kidsSize, restSize_bytes, C10.sumT_cons, C10.tb]
        have : sumBytes rest = C10.sumT rest := sumBytes_eq_sumT rest
        omega
  theorem sizedL_wfbL : ∀ ks : List Tree, SizedL ks → C10.WFbL ks
    | [], _ => C10.WFbL.nil
    | c :: rest, h => by
      unfold SizedL at h
      exact C10.WFbL.cons c rest (sized_wfb c h.1) (sizedL_wfbL rest h.2)
end

theorem lenS_mid (a b c : List Nat) : C10.lenS (a ++ b ++ c) a.length (a.length + b.length) = lengthOf b := by
  unfold C10.lenS
  rw [slice_mid]

mutual
  /-- `yields_cons`: a summarized tree that spells the text (leaf paddings/sizes measure consecutive
  pieces) is consistent with the text in C10's sense: EVERY node stores the extents the text
  gives.  So C10's checker `consCheckAt` and C10's edit theorems apply to parsed trees. -/
  theorem yields_cons : ∀ (t : Tree) (s pre post : List Nat), Sized t → Yields t s →
      C10.Cons (pre ++ s ++ post) t pre.length
    | .mk d [], s, pre, post, _, hy => by
      cases hy with
      | leaf _ p q hp hq =>
        simp only [C10.Cons, C10.ConsL, and_true]
        have hpb : d.padding.bytes = p.length := by rw [hp]; rfl
        have hqb : d.size.bytes = q.length := by rw [hq]; rfl
        refine ⟨by simp [hpb, hqb]; omega, ?_, ?_⟩
        · rw [hpb, hp, measure_eq_lengthOf]
          have : pre ++ (p ++ q) ++ post = pre ++ p ++ (q ++ post) := by simp
          rw [this, lenS_mid]
        · rw [hpb, hqb, hq, measure_eq_lengthOf]
          have : pre ++ (p ++ q) ++ post = (pre ++ p) ++ q ++ post := by simp
          rw [this, ← List.length_append, lenS_mid]
    | .mk d (c :: rest), s, pre, post, hs, hy => by
      have htot := yields_total (.mk d (c :: rest)) s hs hy
      cases hy with
      | node _ _ _ _ hl =>
        have hs' := hs
        unfold Sized at hs'
        have hps := hs'.1 (by simp)
        have hk := yieldsL_cons (c :: rest) s pre post hs'.2 hl
        simp only [C10.Cons]
        refine ⟨?_, hk⟩
        -- the node's own padding and size
        simp only [Tree.totalSize, Tree.data] at htot
        rw [measure_eq_lengthOf] at htot
        have hb : d.padding.bytes + d.size.bytes = s.length := by
          have := congrArg Length.bytes htot
          simpa [length_add_bytes, lengthOf] using this
        have hk1 := hk
        simp only [C10.ConsL] at hk1
        obtain ⟨cd, ck⟩ := c
        have hc := hk1.1
        simp only [C10.Cons] at hc
        obtain ⟨⟨_, hcp, _⟩, _⟩ := hc
        simp only [kidsPadding, Tree.data] at hps
        have hpad : d.padding = C10.lenS (pre ++ s ++ post) pre.length (pre.length + d.padding.bytes) := by
          rw [hps.1]; exact hcp
        refine ⟨by simp; omega, hpad, ?_⟩
        -- size = total − padding
        have htotal : length_add d.padding d.size = C10.lenS (pre ++ s ++ post) pre.length (pre.length + s.length) := by
          rw [htot, lenS_mid]
        have hsplit := C10.lenS_add (pre ++ s ++ post) pre.length (pre.length + d.padding.bytes) (pre.length + s.length)
          (by omega) (by omega)
        rw [← hpad] at hsplit
        have : d.size = C10.lenS (pre ++ s ++ post) (pre.length + d.padding.bytes) (pre.length + s.length) := by
          have h1 := length_sub_add_cancel d.padding d.size
          have h2 := length_sub_add_cancel d.padding (C10.lenS (pre ++ s ++ post) (pre.length + d.padding.bytes) (pre.length + s.length))
          rw [← h1, htotal, ← hsplit, h2]
        have e : pre.length + d.padding.bytes + d.size.bytes = pre.length + s.length := by omega
        rw [e]
        exact this
  theorem yieldsL_cons : ∀ (ks : List Tree) (s pre post : List Nat), SizedL ks → YieldsL ks s →
      C10.ConsL (pre ++ s ++ post) ks pre.length
    | [], _, _, _, _, _ => by simp [C10.ConsL]
    | c :: rest, s, pre, post, hs, hy => by
      cases hy with
      | cons _ _ s1 s2 h1 h2 =>
        unfold SizedL at hs
        simp only [C10.ConsL]
        have hc := yields_cons c s1 pre (s2 ++ post) hs.1 h1
        have hr := yieldsL_cons rest s2 (pre ++ s1) post hs.2 h2
        have htb : C10.tb c = s1.length := by
          have := congrArg Length.bytes (yields_total c s1 hs.1 h1)
          simpa [measure, C10.tb, Tree.totalSize, length_add_bytes] using this
        refine ⟨by simpa [List.append_assoc] using hc, ?_⟩
        rw [htb, ← List.length_append]
        simpa [List.append_assoc] using hr
end

/-- `edit_preserves_summaries` — the "every tree obtained after any edit history" quantifier for
the structural clauses: start from a parsed tree (inner nodes summarized, leaves measuring the
text `T`); after ANY finite history of text edits that describe their text changes correctly
(`HistOK`, C10) the edited tree still tiles in bytes (`WFb`: every inner node's padding is its
first child's and padding+size is the sum of the children's totals — the byte content of the
summaries) and every node still stores the extents of the bytes it covers in the CURRENT text. -/
theorem edit_preserves_summaries (xs : List C10.TextEdit) (T : List Nat) (t : Tree)
    (hs : Sized t) (hy : Yields t T) (hx : C10.HistOK T xs) :
    C10.WFb (xs.foldl C10.applyEdit t) ∧ C10.Cons (xs.foldl C10.applyText T) (xs.foldl C10.applyEdit t) 0 := by
  have hc := yields_cons t T [] [] hs hy
  simp only [List.nil_append, List.append_nil, List.length_nil] at hc
  exact C10.edits_consistent xs T t (sized_wfb t hs) hc hx


mutual
  /-- The containment clause needs only the byte tiling: every tree with C10's `WFb` is nested. -/
  theorem wfb_nested : ∀ (t : Tree), C10.WFb t → ∀ pos : Nat, NestedAt t pos
    | .mk d [], _, pos => by unfold NestedAt KidsWithin; trivial
    | .mk d (c :: rest), h, pos => by
      cases h with
      | node _ _ _ hc hr hp hsum =>
        unfold NestedAt
        apply kids_within_wfb (c :: rest) pos _ _ (C10.WFbL.cons c rest hc hr)
        · simp only [kidsPadding]; omega
        · rw [sumBytes_eq_sumT]; omega
  theorem kids_within_wfb : ∀ (kids : List Tree) (cur lo hi : Nat), C10.WFbL kids →
      lo ≤ cur + (kidsPadding kids).bytes → cur + sumBytes kids ≤ hi → KidsWithin kids cur lo hi
    | [], _, _, _, _, _, _ => by unfold KidsWithin; trivial
    | c :: rest, cur, lo, hi, hs, hlo, hhi => by
      cases hs with
      | cons _ _ hc hr =>
        unfold KidsWithin
        simp only [sumBytes] at hhi
        simp only [kidsPadding] at hlo
        refine ⟨hlo, by omega, wfb_nested c hc cur, ?_⟩
        apply kids_within_wfb rest _ lo hi hr
        · simp only [Tree.totalBytes]; omega
        · omega
end

/-- `edited_spans_nested`: after any correct edit history every node of the edited tree still lies
inside its parent (and siblings stay ordered/disjoint by `siblings_ordered`, which needs nothing). -/
theorem edited_spans_nested (xs : List C10.TextEdit) (T : List Nat) (t : Tree)
    (hs : Sized t) (hy : Yields t T) (hx : C10.HistOK T xs) (pos : Nat) :
    NestedAt (xs.foldl C10.applyEdit t) pos :=
  wfb_nested _ (edit_preserves_summaries xs T t hs hy hx).1 pos

end TsVerif.C02
