import TsVerif.C02.Model
/-!
# C02 round 11b — the representation invariant of the inline leaf: inline ⇒ symbol < 256

`SubtreeInlineData.symbol` is a `uint8_t`; `ts_subtree_new_leaf` (lib/src/subtree.c) therefore stores a leaf inline only
when `symbol <= UINT8_MAX` (besides "no external tokens" and `ts_subtree_can_inline`).  The port `newLeaf` has that
condition; these theorems state what it buys, for EVERY language, symbol, extent and flag combination:

* `newLeaf_inline_symbol_lt` — an inline leaf's symbol is below 256, it carries no external-token / column flags, and its
  extents satisfy `ts_subtree_can_inline`;
* `newLeaf_inline_symbol_survives_u8` — so the 8-bit field holds the symbol exactly (`symbol % 256 = symbol`) and
  `ts_subtree_leaf_symbol` of the leaf is the symbol the lexer produced;
* `newLeaf_wide_symbol_on_heap` — a symbol ≥ 256 is never inline (the seeded C02-r11-inline-leaf-symbol-width drops this);
* `newMissingLeaf_inline_symbol_lt` — the same for `ts_subtree_new_missing_leaf`.

Tie: `corr:inline_limits` of the judge decides `isInline → can_inline ∧ symbol ≤ 255` on every dumped real node; what the
8-bit truncation would do to the PUBLIC kind of a leaf is judged by the `literal` clause on zoo/c02wide (ids up to 360).
-/
namespace TsVerif.C02
open TsVerif TsGen

theorem newLeaf_isInline (lang : Lang) (symbol : Nat) (padding size : Length) (lookahead parseState : Nat) (x y z : Bool) :
    (newLeaf lang symbol padding size lookahead parseState x y z).data.isInline =
      (decide (symbol ≤ 255) && !x && ts_subtree_can_inline padding size lookahead) := rfl

theorem newLeaf_symbol (lang : Lang) (symbol : Nat) (padding size : Length) (lookahead parseState : Nat) (x y z : Bool) :
    (newLeaf lang symbol padding size lookahead parseState x y z).data.symbol = symbol := rfl

theorem newLeaf_inline_symbol_lt (lang : Lang) (symbol : Nat) (padding size : Length) (lookahead parseState : Nat)
    (x y z : Bool)
    (h : (newLeaf lang symbol padding size lookahead parseState x y z).data.isInline = true) :
    symbol < 256 ∧ x = false ∧ ts_subtree_can_inline padding size lookahead = true ∧
    (newLeaf lang symbol padding size lookahead parseState x y z).data.hasExternalTokens = false ∧
    (newLeaf lang symbol padding size lookahead parseState x y z).data.dependsOnColumn = false := by
  have hx : (newLeaf lang symbol padding size lookahead parseState x y z).data.hasExternalTokens =
      (!(decide (symbol ≤ 255) && !x && ts_subtree_can_inline padding size lookahead) && x) := rfl
  have hy : (newLeaf lang symbol padding size lookahead parseState x y z).data.dependsOnColumn =
      (!(decide (symbol ≤ 255) && !x && ts_subtree_can_inline padding size lookahead) && y) := rfl
  rw [newLeaf_isInline] at h
  rw [hx, hy, h]
  simp only [Bool.and_eq_true, decide_eq_true_eq, Bool.not_eq_true'] at h
  obtain ⟨⟨h1, h2⟩, h3⟩ := h
  exact ⟨by omega, h2, h3, rfl, rfl⟩

theorem newLeaf_inline_symbol_survives_u8 (lang : Lang) (symbol : Nat) (padding size : Length) (lookahead parseState : Nat)
    (x y z : Bool)
    (h : (newLeaf lang symbol padding size lookahead parseState x y z).data.isInline = true) :
    symbol % 256 = symbol ∧ leafSymbol (newLeaf lang symbol padding size lookahead parseState x y z) = symbol := by
  have h1 := (newLeaf_inline_symbol_lt lang symbol padding size lookahead parseState x y z h).1
  refine ⟨Nat.mod_eq_of_lt h1, ?_⟩
  unfold leafSymbol
  rw [if_pos h, newLeaf_symbol]

theorem newLeaf_wide_symbol_on_heap (lang : Lang) (symbol : Nat) (padding size : Length) (lookahead parseState : Nat)
    (x y z : Bool) (hw : 256 ≤ symbol) :
    (newLeaf lang symbol padding size lookahead parseState x y z).data.isInline = false ∧
    (newLeaf lang symbol padding size lookahead parseState x y z).data.symbol = symbol := by
  constructor
  · cases hi : (newLeaf lang symbol padding size lookahead parseState x y z).data.isInline with
    | false => rfl
    | true => have := (newLeaf_inline_symbol_lt lang symbol padding size lookahead parseState x y z hi).1; omega
  · rfl

theorem newMissingLeaf_inline_symbol_lt (lang : Lang) (symbol state : Nat) (padding : Length) (lookahead : Nat)
    (h : (newMissingLeaf lang symbol state padding lookahead).data.isInline = true) : symbol < 256 := by
  have : (newMissingLeaf lang symbol state padding lookahead).data.isInline =
      (newLeaf lang symbol padding length_zero lookahead state false false false).data.isInline := by
    rfl
  rw [this] at h
  exact (newLeaf_inline_symbol_lt lang symbol padding length_zero lookahead state false false false h).1

/-- non-vacuity: a short token with id 255 IS inline, the same token with id 256 is not -/
example : (newLeaf default 255 ⟨1, ⟨0, 1⟩⟩ ⟨4, ⟨0, 4⟩⟩ 1 7 false false false).data.isInline = true := by decide
example : (newLeaf default 256 ⟨1, ⟨0, 1⟩⟩ ⟨4, ⟨0, 4⟩⟩ 1 7 false false false).data.isInline = false := by decide

end TsVerif.C02
