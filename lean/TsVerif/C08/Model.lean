/-!
# C08 — reference-counted subtree heap (`lib/src/subtree.c`, `lib/src/tree.c`)

`Heap`: cells with a reference count, children and a payload; a `Ref` is either an inline
subtree (the data lives in the reference itself, `SubtreeInlineData`) or a pointer to a cell.
Handles (`TSTree::root`) each own one count of their root.

Ported operations:
* `retain` / `retainAll`  — `ts_subtree_retain` (atomic_inc), `ts_subtree_clone`'s child loop;
* `release`               — `ts_subtree_release`: decrement; on zero push on the explicit stack
                            (`pool->tree_stack`), then pop / decrement children / free;
* `clone`, `makeMut`      — `ts_subtree_clone`, `ts_subtree_make_mut` (in place iff `ref_count == 1`,
                            else new cell + retain children + release the original);
* `editRef` / `editKids`  — the ownership skeleton of `ts_subtree_edit`: every visited node is
                            made mutable and rewritten, its visited children likewise.  *Which*
                            nodes are visited and their new payload is an `EditSpec` (computed in
                            the driver from the C10 port of the geometry);
* `State.copy/delete/edit`— `ts_tree_copy`, `ts_tree_delete`, `ts_tree_edit`.
The intermediate heaps of `editRef` differ from the C code's (a cell that is being rewritten is
taken out of the heap while its children are edited and put back with the new child list, instead
of being updated slot by slot); the heaps between API calls are the same (checked by the
correspondence on every run).
-/
namespace TsVerif.C08

inductive Ref (D : Type) where
  | inl (d : D)
  | ptr (id : Nat)
  deriving DecidableEq, Repr, Inhabited

structure Cell (D : Type) where
  rc : Nat
  kids : List (Ref D)
  data : D
  deriving DecidableEq, Repr, Inhabited

/-- `heap[id] = some (some c)`: live cell; `some none`: freed; beyond the length: never allocated. -/
abbrev Heap (D : Type) := List (Option (Cell D))

variable {D : Type}

def cellAt (h : Heap D) (id : Nat) : Option (Cell D) :=
  match h[id]? with
  | some (some c) => some c
  | _ => none

def rcOf (h : Heap D) (id : Nat) : Nat :=
  match cellAt h id with
  | some c => c.rc
  | none => 0

def setRc (h : Heap D) (id : Nat) (f : Nat → Nat) : Heap D :=
  match cellAt h id with
  | some c => h.set id (some { c with rc := f c.rc })
  | none => h

def incr (h : Heap D) (id : Nat) : Heap D := setRc h id (· + 1)
def decr (h : Heap D) (id : Nat) : Heap D := setRc h id (· - 1)

def retain (h : Heap D) : Ref D → Heap D
  | .inl _ => h
  | .ptr id => incr h id

def retainAll (h : Heap D) (ks : List (Ref D)) : Heap D := ks.foldl retain h

/-- Decrement one child of a cell being freed; push it when it reaches zero. -/
def releaseKid (hs : Heap D × List Nat) : Ref D → Heap D × List Nat
  | .inl _ => hs
  | .ptr kid =>
    let h2 := decr hs.1 kid
    if rcOf h2 kid = 0 then (h2, kid :: hs.2) else (h2, hs.2)

/-- The `while (pool->tree_stack.size > 0)` loop of `ts_subtree_release`. -/
def releaseLoop : Nat → Heap D → List Nat → Heap D
  | 0, h, _ => h
  | _ + 1, h, [] => h
  | f + 1, h, id :: st =>
    match cellAt h id with
    | some c =>
      let hs := c.kids.foldl releaseKid (h, st)
      releaseLoop f (hs.1.set id none) hs.2
    | none => releaseLoop f h st

def release (h : Heap D) : Ref D → Heap D
  | .inl _ => h
  | .ptr id =>
    let h1 := decr h id
    if rcOf h1 id = 0 then releaseLoop (h.length + 1) h1 [id] else h1

/-- `ts_subtree_clone`: fresh cell with count 1 sharing (and retaining) the children. -/
def clone (h : Heap D) (c : Cell D) : Heap D × Nat :=
  let h1 := retainAll h c.kids
  (h1 ++ [some { rc := 1, kids := c.kids, data := c.data }], h1.length)

/-- `ts_subtree_make_mut` on a pointer. -/
def makeMut (h : Heap D) (id : Nat) : Heap D × Nat :=
  match cellAt h id with
  | some c =>
    if c.rc = 1 then (h, id)
    else
      let cl := clone h c
      (release cl.1 (.ptr id), cl.2)
  | none => (h, id)

inductive EditSpec (D : Type) where
  | skip
  | visit (newData : D) (promote : Bool) (kids : List (EditSpec D))
  deriving Repr, Inhabited

mutual
  def editRef (h : Heap D) (r : Ref D) : EditSpec D → Heap D × Ref D
    | .skip => (h, r)
    | .visit nd promote specs =>
      match r with
      | .inl _ =>
        if promote then (h ++ [some { rc := 1, kids := [], data := nd }], .ptr h.length) else (h, .inl nd)
      | .ptr id0 =>
        let (h1, id) := makeMut h id0
        match cellAt h1 id with
        | some c =>
          -- the (now exclusively owned) cell is held by the edit while its children are rewritten
          let h2 := h1.set id none
          let (h3, ks) := editKids h2 c.kids specs
          (h3.set id (some { rc := c.rc, kids := ks, data := nd }), .ptr id)
        | none => (h1, .ptr id)
  def editKids (h : Heap D) : List (Ref D) → List (EditSpec D) → Heap D × List (Ref D)
    | [], _ => (h, [])
    | ks, [] => (h, ks)
    | k :: ks, s :: ss =>
      let (h1, k') := editRef h k s
      let (h2, ks') := editKids h1 ks ss
      (h2, k' :: ks')
end

/-- Heap plus tree handles; a deleted handle stays as `none` so that handle numbers are stable. -/
structure State (D : Type) where
  heap : Heap D
  handles : List (Option (Ref D))
  deriving Repr, Inhabited

def State.root (s : State D) (h : Nat) : Option (Ref D) :=
  match s.handles[h]? with
  | some (some r) => some r
  | _ => none

/-- `ts_tree_copy`. -/
def State.copy (s : State D) (h : Nat) : State D :=
  match s.root h with
  | some r => { heap := retain s.heap r, handles := s.handles ++ [some r] }
  | none => s

/-- `ts_tree_delete`. -/
def State.delete (s : State D) (h : Nat) : State D :=
  match s.root h with
  | some r => { heap := release s.heap r, handles := s.handles.set h none }
  | none => s

/-- `ts_tree_edit`. -/
def State.edit (s : State D) (h : Nat) (spec : EditSpec D) : State D :=
  match s.root h with
  | some r =>
    let (heap, r') := editRef s.heap r spec
    { heap, handles := s.handles.set h (some r') }
  | none => s

/-- What a (re-)parse builds, as far as ownership is concerned: it *reuses* subtrees that already
exist (of the old tree, of the parser's caches) by retaining them, creates inline leaves, and creates
fresh cells whose children it built before (`ts_subtree_new_node` takes over the children's
references).  Which subtrees are reused is the parser's business (C01/C12); here only the contract
"reuse = retain, everything else is fresh" is modelled. -/
inductive BuildSpec (D : Type) where
  | reuse (r : Ref D)
  | leaf (d : D)
  | node (d : D) (kids : List (BuildSpec D))
  deriving Repr, Inhabited

mutual
  def build (h : Heap D) : BuildSpec D → Heap D × Ref D
    | .reuse r => (retain h r, r)
    | .leaf d => (h, .inl d)
    | .node d specs =>
      let (h1, ks) := buildKids h specs
      (h1 ++ [some { rc := 1, kids := ks, data := d }], .ptr h1.length)
  def buildKids (h : Heap D) : List (BuildSpec D) → Heap D × List (Ref D)
    | [] => (h, [])
    | s :: ss =>
      let (h1, k) := build h s
      let (h2, ks) := buildKids h1 ss
      (h2, k :: ks)
end

mutual
  /-- The contract of a build: whatever it reuses exists. -/
  def reusedLive (h : Heap D) : BuildSpec D → Bool
    | .reuse (.ptr i) => (cellAt h i).isSome
    | .reuse (.inl _) => true
    | .leaf _ => true
    | .node _ specs => reusedLiveL h specs
  def reusedLiveL (h : Heap D) : List (BuildSpec D) → Bool
    | [] => true
    | s :: ss => reusedLive h s && reusedLiveL h ss
end

/-- `ts_parser_parse(old_tree = handle …)`: the result becomes a new handle; no existing handle is
touched.  (A build that would reuse a non-existing cell is outside the contract: no-op.) -/
def State.reparse (s : State D) (spec : BuildSpec D) : State D :=
  if reusedLive s.heap spec then
    let (heap, r) := build s.heap spec
    { heap, handles := s.handles ++ [some r] }
  else s

/-- The explicit tree seen through a reference (what `observe` means in the property). -/
inductive OTree (D : Type) where
  | mk (d : D) (kids : List (OTree D))
  deriving Repr, Inhabited

mutual
  def unfold : Nat → Heap D → Ref D → Option (OTree D)
    | _, _, .inl d => some (.mk d [])
    | 0, _, .ptr _ => none
    | f + 1, h, .ptr id =>
      match cellAt h id with
      | some c => (unfoldL f h c.kids).map (OTree.mk c.data)
      | none => none
  def unfoldL : Nat → Heap D → List (Ref D) → Option (List (OTree D))
    | _, _, [] => some []
    | f, h, k :: ks =>
      match unfold f h k, unfoldL f h ks with
      | some t, some ts => some (t :: ts)
      | _, _ => none
end

/-- The only shared read-modify-write accesses that operations of *different* tree handles perform on
common cells: atomic increments and decrements of reference counts (`atomic_inc` / `atomic_dec`). -/
inductive Acc where
  | inc (i : Nat)
  | dec (i : Nat)
  deriving DecidableEq, Repr

def Acc.id : Acc → Nat
  | .inc i => i
  | .dec i => i

def Acc.apply (h : Heap D) : Acc → Heap D
  | .inc i => incr h i
  | .dec i => decr h i

/-- A global interleaving of atomic accesses, executed one after the other (sequential consistency). -/
def applyAll (h : Heap D) (accs : List Acc) : Heap D := accs.foldl Acc.apply h

def incsOf (i : Nat) (accs : List Acc) : Nat := (accs.filter (· == .inc i)).length
def decsOf (i : Nat) (accs : List Acc) : Nat := (accs.filter (· == .dec i)).length

/-- All references held by the state: handle roots and the child links of live cells. -/
def kidsOf (h : Heap D) : List (Ref D) :=
  h.flatMap fun o => match o with | some c => c.kids | none => []

def rootsOf (hs : List (Option (Ref D))) : List (Ref D) := hs.filterMap id

def State.refs (s : State D) : List (Ref D) := rootsOf s.handles ++ kidsOf s.heap

def liveCount (h : Heap D) : Nat := (h.filter Option.isSome).length

end TsVerif.C08
