import TsVerif.C08.Props
import TsVerif.C08.Persistence
import TsVerif.C08.Concurrency
/-!
# C08, round 11 — the plain-write footprint of a whole `ts_tree_edit` is owned

The OPEN item of the notes: the independence hypothesis of `interleaving_eq_sequential` is assumed for
the access sequences of two whole API operations.  This file derives the part of it that concerns
**plain writes of `ts_tree_edit`** from the model itself, by induction over the edit:

* `editWrites h r spec` — the *plain-write footprint* of `editRef h r spec` (the ownership skeleton of
  `ts_subtree_edit` with its copy-on-write `ts_subtree_make_mut`): the id of every cell whose children /
  payload are rewritten in place (the `set`s of `editRef`; this includes a fresh clone made by `make_mut`).
  The only other heap accesses of `editRef` are appends of fresh cells (clone, promoted leaf — ids beyond
  the heap, nobody else can name them), reads, and atomic count updates (`retainAll` of a clone,
  `release` of the shared original).
* `Reach h X i` — cell `i` is reachable from the references `X` through child links of live cells: the
  *read footprint* of any operation (copy, query, walk, re-parse reuse, edit, delete) that starts from `X`.
* `editRef_footprint` (mutual induction with `editKids_footprint`): in any valid heap, for every edit spec,
  with `X` = all other owners (other handles' roots; siblings still to be edited):
  (1) every cell reachable from `X` keeps its children and payload (only its count may change), and is
  still reachable from `X` afterwards; (2) **no cell of the write footprint is reachable from `X`** — at
  every `make_mut` the cell is either fresh or has count 1 and the edit holds its only reference, and
  being unreachable from `X` in an intermediate heap implies being unreachable from `X` in the heap the
  operation started from (`frame_reach`).
* `edit_footprint_owned`: the same at the API level — for handles `h' ≠ h` of a valid state, no cell
  reachable from the root of `h'` is in the write footprint of `s.edit h spec`, and each such cell has the
  same children and payload afterwards.
* `edit_writes_indep`: hence every `write i …` access of the edit is `indep` (Concurrency.lean) of every
  read / inc / dec another thread performs on cells reachable from its own handle: the cross pairs
  "plain write of an edit vs any access of an operation on a distinct handle" satisfy the hypothesis of
  `interleaving_eq_sequential` — derived, not assumed.
* `copy_accesses`, `copy_copy_interleaving`: `ts_tree_copy` as an access sequence (`inc root`) whose run is
  the big-step `State.copy`; for two copies the hypothesis of `interleaving_eq_sequential` is discharged
  completely: every interleaving equals `(s.copy h).copy h'`.

* `edit_writes_indep_copy`: every plain write of an edit is `indep` of every access of a `ts_tree_copy` of
  another handle.  `release_cellframe` / `delete_footprint_owned`: the release cascade of `ts_tree_delete`
  (whose only plain writes are frees) frees / changes no cell reachable from another handle.
* `inc_dec_commute`, `shared_root_count_ge_two`, `copy_delete_shared_root`: the one cross pair of
  copy ‖ delete on two handles with the same root that is NOT `indep` — `inc root` vs `dec root` — commutes
  on the heap, and the `dec` returns a non-zero count in both orders (the count is ≥ 2 because both handles
  hold a reference): the same thread frees (nobody) in either order.

What stays OPEN (honest): the operations are still big-step functions; the full small-step access
sequence of edit / delete (with the order of the accesses, the frees of the release cascade, and the
`dec`/`dec`, `inc`/`dec` pairs on a shared count, which are *not* `indep` because `dec` returns the new
count) is not defined, so `interleaving_eq_sequential` is instantiated for copy‖copy only.  For
edit‖anything the statement proved here is the footprint disjointness: the only cells an edit shares with
an operation on a distinct handle are touched by the edit through reads and atomic count updates.
-/
namespace TsVerif.C08

variable {D : Type}

/-- Reachability from a set of references through child links of live cells. -/
inductive Reach (h : Heap D) (X : List (Ref D)) : Nat → Prop
  | root {i : Nat} : Ref.ptr i ∈ X → Reach h X i
  | kid {j i : Nat} {c : Cell D} : Reach h X j → cellAt h j = some c → Ref.ptr i ∈ c.kids → Reach h X i

/-- Every cell reachable from `X` keeps children and payload from `h` to `h'`. -/
def Frame (h h' : Heap D) (X : List (Ref D)) : Prop :=
  ∀ i, Reach h X i → ∀ c, cellAt h i = some c →
    ∃ c', cellAt h' i = some c' ∧ c'.kids = c.kids ∧ c'.data = c.data

theorem reach_mono {h : Heap D} {X X' : List (Ref D)} (hs : ∀ x, x ∈ X → x ∈ X') {i : Nat}
    (hr : Reach h X i) : Reach h X' i := by
  induction hr with
  | root hm => exact Reach.root (hs _ hm)
  | kid _ hc hk ih => exact Reach.kid ih hc hk

theorem frame_reach {h h' : Heap D} {X : List (Ref D)} (hf : Frame h h' X) {i : Nat}
    (hr : Reach h X i) : Reach h' X i := by
  induction hr with
  | root hm => exact Reach.root hm
  | kid hj hc hk ih =>
    obtain ⟨c', hc', hkids, _⟩ := hf _ hj _ hc
    exact Reach.kid ih hc' (by rw [hkids]; exact hk)

theorem frame_trans {a b c : Heap D} {X : List (Ref D)} (h1 : Frame a b X) (h2 : Frame b c X) :
    Frame a c X := by
  intro i hr ci hci
  obtain ⟨c1, hc1, hk1, hd1⟩ := h1 i hr ci hci
  obtain ⟨c2, hc2, hk2, hd2⟩ := h2 i (frame_reach h1 hr) c1 hc1
  exact ⟨c2, hc2, hk2.trans hk1, hd2.trans hd1⟩

theorem frame_mono {h h' : Heap D} {X X' : List (Ref D)} (hs : ∀ x, x ∈ X → x ∈ X')
    (hf : Frame h h' X') : Frame h h' X :=
  fun i hr c hc => hf i (reach_mono hs hr) c hc

theorem frame_of_ext {h h' : Heap D} (he : Ext h h') (X : List (Ref D)) : Frame h h' X :=
  fun i _ c hc => he i c hc

/-- A cell that nobody refers to is not reachable. -/
theorem reach_ne {h : Heap D} {X : List (Ref D)} {i0 : Nat} (hx : cnt i0 X = 0)
    (hk : cnt i0 (kidsOf h) = 0) {i : Nat} (hr : Reach h X i) : i ≠ i0 := by
  cases hr with
  | root hm =>
    intro e; subst e
    have := cnt_pos_of_mem hm; omega
  | kid hj hc hkid =>
    intro e; subst e
    have h1 := cnt_pos_of_mem hkid
    have h2 := cnt_kids_le i h _ _ hc
    omega

theorem frame_set_unref {h : Heap D} {X : List (Ref D)} {i0 : Nat} (o : Option (Cell D))
    (hi : i0 < h.length) (hx : cnt i0 X = 0) (hk : cnt i0 (kidsOf h) = 0) : Frame h (h.set i0 o) X := by
  intro i hr c hc
  have hne := reach_ne hx hk hr
  refine ⟨c, ?_, rfl, rfl⟩
  rw [cellAt_set _ _ _ _ hi]; simp [hne, hc]

mutual
  /-- Plain-write footprint of `editRef`: the cells rewritten in place (`set`). -/
  def editWrites (h : Heap D) (r : Ref D) : EditSpec D → List Nat
    | .skip => []
    | .visit _ _ specs =>
      match r with
      | .inl _ => []
      | .ptr id0 =>
        let (h1, id) := makeMut h id0
        match cellAt h1 id with
        | some c => id :: editKidsWrites (h1.set id none) c.kids specs
        | none => []
  def editKidsWrites (h : Heap D) : List (Ref D) → List (EditSpec D) → List Nat
    | [], _ => []
    | _, [] => []
    | k :: ks, s :: ss => editWrites h k s ++ editKidsWrites (editRef h k s).1 ks ss
end

mutual
  theorem editRef_footprint : ∀ (spec : EditSpec D) (h : Heap D) (r : Ref D) (X : List (Ref D)),
      WF h (r :: X) →
      Frame h (editRef h r spec).1 X ∧ ∀ i, i ∈ editWrites h r spec → ¬ Reach h X i
    | .skip, h, r, X, _ => by
      unfold editRef editWrites
      exact ⟨frame_of_ext (Ext.refl h) X, fun i hi => by simp at hi⟩
    | .visit nd promote specs, h, .inl d, X, _ => by
      unfold editRef editWrites
      refine ⟨?_, fun i hi => by simp at hi⟩
      by_cases hp : promote = true
      · simp only [hp, if_true]; exact frame_of_ext (ext_append _ _) X
      · simp only [hp]; exact frame_of_ext (Ext.refl h) X
    | .visit nd promote specs, h, .ptr id0, X, hw => by
      obtain ⟨hw1, c, c', hc, hc', hrc, hkids, hdata⟩ := makeMut_wf hw
      have F1 : Frame h (makeMut h id0).1 X := frame_of_ext (makeMut_ext hw) X
      have hi := cellAt_lt hc'
      have hrc1 : rcOf (makeMut h id0).1 (makeMut h id0).2 = 1 := by unfold rcOf; rw [hc']; exact hrc
      have hexcl := hw1.count (makeMut h id0).2
      simp only [cnt_cons_ptr, if_true, hrc1] at hexcl
      have F2 : Frame (makeMut h id0).1 ((makeMut h id0).1.set (makeMut h id0).2 none) X :=
        frame_set_unref none hi (by omega) (by omega)
      have hw2 := takeOut_wf hw1 hc' hrc
      have ihf := editKids_footprint specs _ c'.kids X hw2
      have ih := editKids_ok specs ((makeMut h id0).1.set (makeMut h id0).2 none) c'.kids X hw2
      have hdead2 : cellAt ((makeMut h id0).1.set (makeMut h id0).2 none) (makeMut h id0).2 = none := by
        rw [cellAt_set _ _ _ _ hi]; simp
      have hi2 : (makeMut h id0).2 < ((makeMut h id0).1.set (makeMut h id0).2 none).length := by simpa using hi
      have hdead3 := ih.2.2 _ hi2 hdead2
      have hi3 := Nat.lt_of_lt_of_le hi2 ih.2.1
      have hz3 := ih.1.count (makeMut h id0).2
      have hr0 : rcOf (editKids ((makeMut h id0).1.set (makeMut h id0).2 none) c'.kids specs).1 (makeMut h id0).2 = 0 := by
        unfold rcOf; rw [hdead3]
      rw [hr0, cnt_append] at hz3
      have F12 := frame_trans F1 F2
      unfold editRef editWrites
      simp only [hc']
      refine ⟨frame_trans (frame_trans F12 ihf.1) (frame_set_unref _ hi3 (by omega) (by omega)), ?_⟩
      intro i hi'
      rcases List.mem_cons.mp hi' with e | hmem
      · subst e
        intro hr
        exact reach_ne (h := (makeMut h id0).1) (X := X) (by omega) (by omega) (frame_reach F1 hr) rfl
      · intro hr
        exact ihf.2 i hmem (frame_reach F12 hr)
  theorem editKids_footprint : ∀ (specs : List (EditSpec D)) (h : Heap D) (ks : List (Ref D))
      (X : List (Ref D)), WF h (ks ++ X) →
      Frame h (editKids h ks specs).1 X ∧ ∀ i, i ∈ editKidsWrites h ks specs → ¬ Reach h X i
    | _, h, [], X, _ => by
      unfold editKids editKidsWrites
      exact ⟨frame_of_ext (Ext.refl h) X, fun i hi => by simp at hi⟩
    | [], h, k :: ks, X, _ => by
      unfold editKids editKidsWrites
      exact ⟨frame_of_ext (Ext.refl h) X, fun i hi => by simp at hi⟩
    | s :: ss, h, k :: ks, X, hw => by
      have hw0 : WF h (k :: (ks ++ X)) := by simpa using hw
      have h1 := editRef_ok s h k (ks ++ X) hw0
      have f1 := editRef_footprint s h k (ks ++ X) hw0
      have hw1' : WF (editRef h k s).1 (ks ++ ((editRef h k s).2 :: X)) :=
        wf_perm h1.1 (fun id => by
          rw [cnt_cons, cnt_append, cnt_append, cnt_cons id (editRef h k s).2 X]; omega)
      have f2 := editKids_footprint ss (editRef h k s).1 ks ((editRef h k s).2 :: X) hw1'
      have F1 : Frame h (editRef h k s).1 X :=
        frame_mono (fun x hx => List.mem_append_right _ hx) f1.1
      have F2 : Frame (editRef h k s).1 (editKids (editRef h k s).1 ks ss).1 X :=
        frame_mono (fun x hx => List.mem_cons_of_mem _ hx) f2.1
      unfold editKids editKidsWrites
      refine ⟨frame_trans F1 F2, ?_⟩
      intro i hi'
      rcases List.mem_append.mp hi' with hm | hm
      · intro hr
        exact f1.2 i hm (reach_mono (fun x hx => List.mem_append_right _ hx) hr)
      · intro hr
        exact f2.2 i hm (reach_mono (fun x hx => List.mem_cons_of_mem _ hx) (frame_reach F1 hr))
end

/-- `edit_footprint_owned`: for handles `h' ≠ h` of a valid state, a cell reachable from the root of
`h'` is never in the plain-write footprint of `s.edit h spec`, and keeps children and payload. -/
theorem edit_footprint_owned (s : State D) (h h' : Nat) (spec : EditSpec D) (hw : SWF s) (hne : h' ≠ h)
    (r r' : Ref D) (hr : s.root h = some r) (hr' : s.root h' = some r') (i : Nat)
    (hreach : Reach s.heap [r'] i) :
    i ∉ editWrites s.heap r spec ∧
    ∀ c, cellAt s.heap i = some c →
      ∃ c', cellAt (s.edit h spec).heap i = some c' ∧ c'.kids = c.kids ∧ c'.data = c.data := by
  have hmem := mem_rootsOf_set_other none hne (root_handles hr')
  have hsub : ∀ x, x ∈ [r'] → x ∈ rootsOf (s.handles.set h none) := by
    intro x hx; simp at hx; subst hx; exact hmem
  have fp := editRef_footprint spec s.heap r _ (swf_split hw hr)
  have hreach' := reach_mono hsub hreach
  refine ⟨fun hin => fp.2 i hin hreach', ?_⟩
  intro c hc
  unfold State.edit
  simp only [hr]
  exact fp.1 i hreach' c hc

/-- The cross pairs "plain write of the edit" vs "read / inc / dec of a cell reachable from another
handle" satisfy the independence hypothesis of `interleaving_eq_sequential`. -/
theorem edit_writes_indep (s : State D) (h h' : Nat) (spec : EditSpec D) (hw : SWF s) (hne : h' ≠ h)
    (r r' : Ref D) (hr : s.root h = some r) (hr' : s.root h' = some r')
    (a b : SAcc D) (ks : List (Ref D)) (d : D) (i : Nat) (ha : a = .write i ks d)
    (hi : i ∈ editWrites s.heap r spec) (hb : Reach s.heap [r'] b.cell) : indep a b := by
  left
  subst ha
  intro e
  have := (edit_footprint_owned s h h' spec hw hne r r' hr hr' b.cell hb).1
  have e' : i = b.cell := e
  exact this (e' ▸ hi)

/-! ### `ts_tree_copy` as an access sequence; copy ‖ copy -/

/-- The accesses of `ts_tree_copy`: one atomic increment of the root's count. -/
def copyAccesses (s : State D) (h : Nat) : List (SAcc D) :=
  match s.root h with
  | some (.ptr i) => [.inc i]
  | _ => []

theorem copy_accesses (s : State D) (h : Nat) : (srun s.heap (copyAccesses s h)).1 = (s.copy h).heap := by
  unfold copyAccesses State.copy
  cases hr : s.root h with
  | none => simp [srun]
  | some r =>
    cases r with
    | inl d => simp [srun, retain]
    | ptr i => simp [srun, sstep, retain]

theorem copy_copy_indep (s : State D) (h h' : Nat) (a b : SAcc D) (ha : a ∈ copyAccesses s h)
    (hb : b ∈ copyAccesses s h') : indep a b := by
  unfold copyAccesses at ha hb
  right
  split at ha <;> split at hb <;> simp at ha hb
  subst ha; subst hb; trivial

/-- `copy_copy_interleaving`: for two `ts_tree_copy` calls on (any) handles the independence hypothesis of
`interleaving_eq_sequential` is *derived*: every interleaving `S` of their access sequences ends in the
heap of `(s.copy h).copy h'` (cell by cell). -/
theorem copy_copy_interleaving (s : State D) (h h' : Nat) (r' : Ref D) (hr' : s.root h' = some r')
    (S : List (Bool × SAcc D)) (hA : projT true S = copyAccesses s h) (hB : projT false S = copyAccesses s h') :
    HeapEq (srunT s.heap S).1 ((s.copy h).copy h').heap := by
  have hmem : ∀ (t : Bool) (a : SAcc D), (t, a) ∈ S → a ∈ projT t S := by
    intro t a hm
    simp only [projT, List.mem_map, List.mem_filter]
    exact ⟨(t, a), ⟨hm, by simp⟩, rfl⟩
  have key := interleaving_eq_sequential S s.heap (fun a b ha hb =>
    copy_copy_indep s h h' a b (hA ▸ hmem true a ha) (hB ▸ hmem false b hb))
  have e1 : (srun s.heap (projT true S)).1 = (s.copy h).heap := by rw [hA]; exact copy_accesses s h
  have e2 : copyAccesses (s.copy h) h' = copyAccesses s h' := by
    unfold copyAccesses; rw [copy_root s h h' r' hr', hr']
  have e3 : (srun (s.copy h).heap (projT false S)).1 = ((s.copy h).copy h').heap := by
    rw [hB, ← e2]; exact copy_accesses (s.copy h) h'
  have := key.1
  rw [e1, e3] at this
  exact this

/-! ### `ts_tree_delete`: the release cascade frees / changes no cell reachable from another owner

`release` performs no plain write except frees (`set i none`), and a freed id stays freed (`DeadMono`), so
the set of cells freed by the cascade is exactly `{i | live before, not live after}`; `release_cellframe`
says that none of them — and no cell whose children or payload differ afterwards — is reachable from any
other owner. -/

theorem pop_step_cellframe {h : Heap D} {owners : List (Ref D)} {i : Nat} {st : List Nat}
    (w : WFS h owners (i :: st)) :
    ∃ ci, cellAt h i = some ci ∧
      Frame h ((ci.kids.foldl releaseKid (h, st)).1.set i none) owners := by
  obtain ⟨ci, hci, hz⟩ := w.stack i List.mem_cons_self
  refine ⟨ci, hci, ?_⟩
  have hnd := List.nodup_cons.mp w.nodup
  have inv0 : FoldInv h owners st i ci [] :=
    { count := fun a => by simpa using w.count a
      pos := fun a c hc => by
        rcases w.pos a c hc with h1 | h1
        · exact Or.inl h1
        · rcases List.mem_cons.mp h1 with h2 | h2
          · exact Or.inr (Or.inr h2)
          · exact Or.inr (Or.inl h2)
      stack := fun a ha => w.stack a (List.mem_cons_of_mem _ ha)
      nodup := hnd.2, notin := hnd.1, self := hci, selfrc := hz }
  have inv := foldInv_all ci.kids [] h st (by simp) inv0
  have hi := cellAt_lt inv.self
  have hci0 := inv.count i
  have hri : rcOf (ci.kids.foldl releaseKid (h, st)).1 i = 0 := by unfold rcOf; rw [inv.self]; exact inv.selfrc
  have hle := cnt_kids_le i _ i ci inv.self
  have hw0 := w.count i
  have hr0 : rcOf h i = 0 := by unfold rcOf; rw [hci]; exact hz
  have hkz : cnt i ci.kids = 0 := by have := cnt_kids_le i h i ci hci; omega
  exact frame_trans (frame_of_ext (ext_releaseKids ci.kids (h, st)) owners)
    (frame_set_unref none hi (by omega) (by omega))

theorem releaseLoop_cellframe {owners : List (Ref D)} : ∀ (fuel : Nat) (h : Heap D) (st : List Nat),
    WFS h owners st → Frame h (releaseLoop fuel h st) owners
  | 0, h, st, _ => by simp only [releaseLoop]; exact frame_of_ext (Ext.refl h) owners
  | _ + 1, h, [], _ => by simp only [releaseLoop]; exact frame_of_ext (Ext.refl h) owners
  | fuel + 1, h, i :: st, w => by
    obtain ⟨ci, hci, w', _, _⟩ := pop_step w
    obtain ⟨ci2, hci2, hf⟩ := pop_step_cellframe w
    have e : ci2 = ci := by rw [hci] at hci2; cases hci2; rfl
    subst e
    simp only [releaseLoop, hci]
    exact frame_trans hf (releaseLoop_cellframe fuel _ _ w')

/-- `release_cellframe`: dropping one owned reference, with the whole cascade of frees: every cell
reachable from the remaining owners stays live with the same children and payload. -/
theorem release_cellframe {h : Heap D} {X : List (Ref D)} (r : Ref D) (hw : WF h (r :: X)) :
    Frame h (release h r) X := by
  cases r with
  | inl d => exact frame_of_ext (Ext.refl h) X
  | ptr i =>
    obtain ⟨c, hc⟩ := hw.live (id := i) (by simp [cnt]; omega)
    have F1 : Frame h (decr h i) X := frame_of_ext (ext_setRc h i (· - 1)) X
    simp only [release]
    split
    · rename_i hz
      have hcell : cellAt (decr h i) i = some { c with rc := c.rc - 1 } := by
        simp only [decr]; exact cellAt_setRc_self _ _ _ hc
      have hz' : c.rc - 1 = 0 := by unfold rcOf at hz; rw [hcell] at hz; exact hz
      have hpos := hw.pos i c hc
      refine frame_trans F1 (releaseLoop_cellframe _ _ _ ?_)
      refine ⟨fun a => ?_, ?_, ?_, by simp⟩
      · have := hw.count a
        simp only [cnt_cons_ptr] at this
        try simp only [decr]
        simp only [rcOf_setRc, kidsOf_setRc, hc, Option.isSome_some, and_true]
        by_cases hai : a = i
        · subst hai
          have hr : rcOf h a = c.rc := by unfold rcOf; rw [hc]
          simp at this ⊢; omega
        · have : ¬ i = a := fun e => hai e.symm
          simp [hai, this] at *; omega
      · intro a c' hc'
        by_cases hai : a = i
        · exact Or.inr (by simp [hai])
        · try simp only [decr] at hc'
          rw [cellAt_setRc_ne _ _ _ _ hai] at hc'
          exact Or.inl (hw.pos a c' hc')
      · intro a ha
        simp at ha; subst ha
        exact ⟨_, hcell, hz'⟩
    · exact F1

/-- `delete_footprint_owned`: for handles `h' ≠ h` of a valid state, no cell reachable from the root of
`h'` is freed by `s.delete h` (with its whole cascade), and each keeps children and payload: the frees of
a delete — its only plain writes — never meet a cell another handle can read. -/
theorem delete_footprint_owned (s : State D) (h h' : Nat) (hw : SWF s) (hne : h' ≠ h)
    (r' : Ref D) (hr' : s.root h' = some r') (i : Nat) (hreach : Reach s.heap [r'] i) :
    ∀ c, cellAt s.heap i = some c →
      ∃ c', cellAt (s.delete h).heap i = some c' ∧ c'.kids = c.kids ∧ c'.data = c.data := by
  intro c hc
  unfold State.delete
  cases hr : s.root h with
  | none => exact ⟨c, hc, rfl, rfl⟩
  | some r =>
    have hmem := mem_rootsOf_set_other none hne (root_handles hr')
    have hsub : ∀ x, x ∈ [r'] → x ∈ rootsOf (s.handles.set h none) := by
      intro x hx; simp at hx; subst hx; exact hmem
    exact release_cellframe r (swf_split hw hr) i (reach_mono hsub hreach) c hc

/-- `copy_footprint_owned`: `ts_tree_copy` changes no cell's children or payload at all. -/
theorem copy_footprint_owned (s : State D) (h : Nat) : Ext s.heap (s.copy h).heap := by
  unfold State.copy
  cases hr : s.root h with
  | none => exact Ext.refl _
  | some r => exact ext_retain s.heap r

/-! ### copy ‖ edit (plain writes) and the `inc`/`dec` pair on a shared root count -/

/-- A plain write of an edit is independent of every access of a `ts_tree_copy` of another handle. -/
theorem edit_writes_indep_copy (s : State D) (h h' : Nat) (spec : EditSpec D) (hw : SWF s) (hne : h' ≠ h)
    (r r' : Ref D) (hr : s.root h = some r) (hr' : s.root h' = some r')
    (ks : List (Ref D)) (d : D) (i : Nat) (hi : i ∈ editWrites s.heap r spec)
    (b : SAcc D) (hb : b ∈ copyAccesses s h') : indep (.write i ks d) b := by
  refine edit_writes_indep s h h' spec hw hne r r' hr hr' _ b ks d i rfl hi ?_
  unfold copyAccesses at hb
  rw [hr'] at hb
  cases r' with
  | inl d' => simp at hb
  | ptr j =>
    simp at hb; subst hb
    show Reach s.heap [Ref.ptr j] j
    exact Reach.root (by simp)

/-- Two distinct handles with the same root: its count is at least 2. -/
theorem shared_root_count_ge_two (s : State D) (h h' i : Nat) (hw : SWF s) (hne : h' ≠ h)
    (hr : s.root h = some (.ptr i)) (hr' : s.root h' = some (.ptr i)) : 2 ≤ rcOf s.heap i := by
  have w := swf_split hw hr
  have hc := w.count i
  simp only [cnt_cons_ptr, if_true] at hc
  have := cnt_pos_of_mem (mem_rootsOf_set_other none hne (root_handles hr'))
  omega

/-- The one kind of cross pair of copy ‖ delete (or copy ‖ the `make_mut` release of an edit) on handles
sharing their root that is not `indep`: `inc i` against `dec i`.  With a count of at least 2 (both
handles hold a reference) the two orders give the same heap, and the `dec` returns a NON-ZERO count in
both orders (`rc` resp. `rc - 1`): the decrementing thread does not free in either order. -/
theorem inc_dec_commute (h : Heap D) (i : Nat) (h2 : 2 ≤ rcOf h i) :
    HeapEq (sstep (sstep h (.inc i)).1 (.dec i)).1 (sstep (sstep h (.dec i)).1 (.inc i)).1 ∧
    (sstep (sstep h (.inc i)).1 (.dec i)).2 = .count (rcOf h i) ∧
    (sstep h (.dec i)).2 = .count (rcOf h i - 1) ∧ rcOf h i ≠ 0 ∧ rcOf h i - 1 ≠ 0 := by
  have la := sstep_local h (.inc i)
  have lb := sstep_local h (.dec i)
  have lab := sstep_local (sstep h (.inc i)).1 (.dec i)
  have lba := sstep_local (sstep h (.dec i)).1 (.inc i)
  simp only [SAcc.cell] at la lb lab lba
  cases hc : cellAt h i with
  | none => simp [rcOf, hc] at h2
  | some c =>
    have hrc : rcOf h i = c.rc := by simp [rcOf, hc]
    rw [hrc] at h2 ⊢
    refine ⟨fun j => ?_, ?_, ?_, by omega, by omega⟩
    · rw [lab.1 j, lba.1 j, la.1 j, lb.1 j]
      by_cases hj : j = i
      · subst hj
        simp only [if_true, SAcc.eff, hc, Option.map_some]
        congr 2
        omega
      · simp [hj]
    · rw [lab.2, la.1 i]
      simp [SAcc.eff, SAcc.obs, hc]
    · rw [lb.2]
      simp [SAcc.obs, hc]

/-- … and this is the situation of `copy h' ‖ delete h` on two handles with the same root. -/
theorem copy_delete_shared_root (s : State D) (h h' i : Nat) (hw : SWF s) (hne : h' ≠ h)
    (hr : s.root h = some (.ptr i)) (hr' : s.root h' = some (.ptr i)) :
    HeapEq (sstep (sstep s.heap (.inc i)).1 (.dec i)).1 (sstep (sstep s.heap (.dec i)).1 (.inc i)).1 ∧
    (∃ n m, (sstep (sstep s.heap (.inc i)).1 (.dec i)).2 = .count n ∧ (sstep s.heap (.dec i)).2 = .count m ∧
      n ≠ 0 ∧ m ≠ 0) := by
  have k := inc_dec_commute s.heap i (shared_root_count_ge_two s h h' i hw hne hr hr')
  exact ⟨k.1, _, _, k.2.1, k.2.2.1, k.2.2.2.1, k.2.2.2.2⟩


/-! ### non-vacuity: two handles sharing the root cell 0 (count 2) whose child is the heap cell 1 -/

example :
    let s : State Nat :=
      { heap := [some { rc := 2, kids := [.ptr 1], data := 1 }, some { rc := 1, kids := [], data := 5 }],
        handles := [some (.ptr 0), some (.ptr 0)] }
    let spec : EditSpec Nat := .visit 9 false [.visit 6 false []]
    -- the edit clones the shared root (cell 2), then must clone the now shared child too (cell 3):
    editWrites s.heap (.ptr 0) spec = [2, 3] ∧
    cellAt (s.edit 0 spec).heap 0 = some { rc := 1, kids := [.ptr 1], data := 1 } ∧
    cellAt (s.edit 0 spec).heap 1 = some { rc := 1, kids := [], data := 5 } ∧
    cellAt (s.edit 0 spec).heap 2 = some { rc := 1, kids := [.ptr 3], data := 9 } := by
  decide

example :
    let s : State Nat :=
      { heap := [some { rc := 1, kids := [.ptr 1], data := 1 }, some { rc := 2, kids := [], data := 5 }],
        handles := [some (.ptr 0), some (.ptr 1)] }
    -- unshared root: written in place (cell 0); shared child: cloned (cell 2), never written
    editWrites s.heap (.ptr 0) (.visit 9 false [.visit 6 false []]) = [0, 2] := by
  decide

example : Reach ([some { rc := 2, kids := [.ptr 1], data := 1 }, some { rc := 1, kids := [], data := 5 }] : Heap Nat)
    [.ptr 0] 1 :=
  Reach.kid (j := 0) (c := { rc := 2, kids := [.ptr 1], data := 1 }) (Reach.root (by simp)) (by decide) (by simp)

/-- The hypotheses of `edit_footprint_owned`, `delete_footprint_owned`, `copy_delete_shared_root` hold for
the shared state of the first example: valid, two distinct handles with the same root. -/
example :
    let s : State Nat :=
      { heap := [some { rc := 2, kids := [.ptr 1], data := 1 }, some { rc := 1, kids := [], data := 5 }],
        handles := [some (.ptr 0), some (.ptr 0)] }
    SWF s ∧ s.root 0 = some (.ptr 0) ∧ s.root 1 = some (.ptr 0) ∧ (1 : Nat) ≠ 0 := by
  refine ⟨⟨fun id => ?_, ?_⟩, rfl, rfl, by decide⟩
  · match id with
    | 0 => rfl
    | 1 => rfl
    | n + 2 => simp [rcOf, cellAt, rootsOf, cnt, kidsOf]
  · intro id c hc
    match id with
    | 0 => simp [cellAt] at hc; subst hc; simp
    | 1 => simp [cellAt] at hc; subst hc; simp
    | n + 2 => simp [cellAt] at hc

end TsVerif.C08
