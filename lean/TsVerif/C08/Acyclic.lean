import TsVerif.C08.Lemmas
/-!
# C08 — acyclicity: a height function on cells, preserved by every operation

`Hgt h f`: every child link of a live cell goes to a cell of strictly smaller height `f` (and inside
the heap), and a cell with children has height ≥ 1.  Clones get the height of their original, a leaf
promoted from an inline subtree gets height 0, a freshly built node gets 1 + the sum of its
children's heights.  With the counting invariant this gives: when the last handle is gone, the heap is empty.
-/
namespace TsVerif.C08

variable {D : Type}

structure Hgt (h : Heap D) (f : Nat → Nat) : Prop where
  lt : ∀ i c, cellAt h i = some c → ∀ j, Ref.ptr j ∈ c.kids → f j < f i ∧ j < h.length
  pos : ∀ i c, cellAt h i = some c → c.kids ≠ [] → 1 ≤ f i

def kidH (f : Nat → Nat) : Ref D → Nat
  | .inl _ => 0
  | .ptr j => f j

def InRange (h : Heap D) : Ref D → Prop
  | .inl _ => True
  | .ptr j => j < h.length

def Agree (n : Nat) (f f' : Nat → Nat) : Prop := ∀ j, j < n → f' j = f j

theorem Agree.refl (n : Nat) (f : Nat → Nat) : Agree n f f := fun _ _ => rfl

theorem Agree.trans {n m : Nat} {f g k : Nat → Nat} (h1 : Agree n f g) (h2 : Agree m g k) (hnm : n ≤ m) :
    Agree n f k := fun j hj => by rw [h2 j (by omega), h1 j hj]

/-- Every live cell of `h'` is a live cell of `h` with the same children (counts/payload may differ). -/
def KidsFrom (h h' : Heap D) : Prop :=
  h.length ≤ h'.length ∧ ∀ i c', cellAt h' i = some c' → ∃ c, cellAt h i = some c ∧ c.kids = c'.kids

theorem hgt_kidsFrom {h h' : Heap D} {f : Nat → Nat} (hk : KidsFrom h h') (hh : Hgt h f) : Hgt h' f := by
  refine ⟨fun i c' hc' j hj => ?_, fun i c' hc' hne => ?_⟩
  · obtain ⟨c, hc, hkk⟩ := hk.2 i c' hc'
    have := hh.lt i c hc j (hkk ▸ hj)
    have hlen := hk.1
    exact ⟨this.1, by omega⟩
  · obtain ⟨c, hc, hkk⟩ := hk.2 i c' hc'
    exact hh.pos i c hc (hkk ▸ hne)

theorem kidsFrom_setRc (h : Heap D) (i : Nat) (g : Nat → Nat) : KidsFrom h (setRc h i g) := by
  refine ⟨by rw [length_setRc]; exact Nat.le_refl _, fun j c' hc' => ?_⟩
  by_cases hji : j = i
  · subst hji
    cases hc : cellAt h j with
    | none => unfold setRc at hc'; rw [hc] at hc'; rw [hc] at hc'; cases hc'
    | some c => rw [cellAt_setRc_self _ _ _ hc] at hc'; cases hc'; exact ⟨c, rfl, rfl⟩
  · rw [cellAt_setRc_ne _ _ _ _ hji] at hc'; exact ⟨c', hc', rfl⟩

theorem KidsFrom.refl (h : Heap D) : KidsFrom h h := ⟨Nat.le_refl _, fun _ c hc => ⟨c, hc, rfl⟩⟩

theorem KidsFrom.trans {a b c : Heap D} (h1 : KidsFrom a b) (h2 : KidsFrom b c) : KidsFrom a c := by
  refine ⟨Nat.le_trans h1.1 h2.1, fun i z hz => ?_⟩
  obtain ⟨y, hy, hyk⟩ := h2.2 i z hz
  obtain ⟨x, hx, hxk⟩ := h1.2 i y hy
  exact ⟨x, hx, hxk.trans hyk⟩

theorem kidsFrom_retain (h : Heap D) (r : Ref D) : KidsFrom h (retain h r) := by
  cases r with
  | inl d => exact KidsFrom.refl h
  | ptr i => exact kidsFrom_setRc h i _

theorem kidsFrom_retainAll (ks : List (Ref D)) : ∀ h : Heap D, KidsFrom h (retainAll h ks) := by
  induction ks with
  | nil => intro h; exact KidsFrom.refl h
  | cons k ks ih => intro h; simp only [retainAll, List.foldl_cons] at ih ⊢; exact (kidsFrom_retain h k).trans (ih _)

theorem kidsFrom_set_none (h : Heap D) (i : Nat) : KidsFrom h (h.set i none) := by
  refine ⟨by simp, fun j c' hc' => ?_⟩
  by_cases hi : i < h.length
  · rw [cellAt_set _ _ _ _ hi] at hc'
    by_cases hji : j = i
    · simp [hji] at hc'
    · simp [hji] at hc'; exact ⟨c', hc', rfl⟩
  · rw [List.set_eq_of_length_le (Nat.le_of_not_lt hi)] at hc'; exact ⟨c', hc', rfl⟩

theorem kidsFrom_releaseKids (ks : List (Ref D)) : ∀ hs : Heap D × List Nat, KidsFrom hs.1 (ks.foldl releaseKid hs).1 := by
  induction ks with
  | nil => intro hs; exact KidsFrom.refl _
  | cons k ks ih =>
    intro hs
    simp only [List.foldl_cons]
    refine KidsFrom.trans ?_ (ih _)
    cases k with
    | inl d => exact KidsFrom.refl _
    | ptr kid =>
      simp only [releaseKid]
      split
      · show KidsFrom hs.1 (setRc hs.1 kid (· - 1)); exact kidsFrom_setRc _ _ _
      · show KidsFrom hs.1 (setRc hs.1 kid (· - 1)); exact kidsFrom_setRc _ _ _

theorem kidsFrom_releaseLoop : ∀ (fuel : Nat) (h : Heap D) (st : List Nat), KidsFrom h (releaseLoop fuel h st)
  | 0, h, _ => KidsFrom.refl h
  | _ + 1, h, [] => KidsFrom.refl h
  | fuel + 1, h, id :: st => by
    simp only [releaseLoop]
    split
    · exact ((kidsFrom_releaseKids _ (h, st)).trans (kidsFrom_set_none _ id)).trans (kidsFrom_releaseLoop fuel _ _)
    · exact kidsFrom_releaseLoop fuel h st

theorem kidsFrom_release (h : Heap D) (r : Ref D) : KidsFrom h (release h r) := by
  cases r with
  | inl d => exact KidsFrom.refl h
  | ptr i =>
    simp only [release]
    split
    · exact (kidsFrom_setRc h i _).trans (kidsFrom_releaseLoop _ _ _)
    · exact kidsFrom_setRc h i _

/-- Allocating a fresh cell whose children are lower. -/
theorem hgt_alloc {h : Heap D} {f : Nat → Nat} (hh : Hgt h f) (ks : List (Ref D)) (d : D) (v : Nat)
    (hks : ∀ j, Ref.ptr j ∈ ks → f j < v ∧ j < h.length) (hv : ks ≠ [] → 1 ≤ v) :
    ∃ f', Agree h.length f f' ∧ f' h.length = v ∧ Hgt (h ++ [some { rc := 1, kids := ks, data := d }]) f' := by
  refine ⟨fun j => if j = h.length then v else f j, fun j hj => by simp; omega, by simp, ?_, ?_⟩
  · intro i c hc j hj
    rcases Nat.lt_or_ge i h.length with hlt | hge
    · rw [cellAt_append_left _ _ _ hlt] at hc
      have := hh.lt i c hc j hj
      have hi : ¬ i = h.length := by omega
      have hj' : ¬ j = h.length := by omega
      simp [hi, hj']; exact ⟨this.1, by omega⟩
    · by_cases hi : i = h.length
      · subst hi
        rw [cellAt_append_new] at hc; cases hc
        have := hks j hj
        have hj' : ¬ j = h.length := by omega
        simp [hj']; exact ⟨this.1, by omega⟩
      · have : (h ++ [some ({ rc := 1, kids := ks, data := d } : Cell D)]).length ≤ i := by simp; omega
        rw [cellAt_ge _ _ this] at hc; cases hc
  · intro i c hc hne
    rcases Nat.lt_or_ge i h.length with hlt | hge
    · rw [cellAt_append_left _ _ _ hlt] at hc
      have hi : ¬ i = h.length := by omega
      simp [hi]; exact hh.pos i c hc hne
    · by_cases hi : i = h.length
      · subst hi
        rw [cellAt_append_new] at hc; cases hc
        simp; exact hv hne
      · have : (h ++ [some ({ rc := 1, kids := ks, data := d } : Cell D)]).length ≤ i := by simp; omega
        rw [cellAt_ge _ _ this] at hc; cases hc


theorem makeMut_hgt {h : Heap D} {X : List (Ref D)} {i : Nat} {f : Nat → Nat} (hw : WF h (.ptr i :: X))
    (hh : Hgt h f) : ∃ f1, Agree h.length f f1 ∧ Hgt (makeMut h i).1 f1 ∧ f1 (makeMut h i).2 = f i := by
  obtain ⟨c, hc⟩ := hw.live (id := i) (by simp [cnt]; omega)
  by_cases h1 : c.rc = 1
  · have : makeMut h i = (h, i) := by unfold makeMut; simp [hc, h1]
    rw [this]; exact ⟨f, Agree.refl _ _, hh, rfl⟩
  · rw [makeMut_shared_eq hw hc h1]
    simp only [clone]
    have hlen : (retainAll h c.kids).length = h.length := length_retainAll _ _
    have hh1 : Hgt (retainAll h c.kids) f := hgt_kidsFrom (kidsFrom_retainAll c.kids h) hh
    obtain ⟨f', hag, hv, hh2⟩ := hgt_alloc hh1 c.kids c.data (f i)
      (fun j hj => by have := hh.lt i c hc j hj; rw [hlen]; exact this) (hh.pos i c hc)
    refine ⟨f', by rw [← hlen]; exact hag, hgt_kidsFrom (kidsFrom_setRc _ _ _) hh2, hv⟩

theorem inRange_mono {h h' : Heap D} (hl : h.length ≤ h'.length) {r : Ref D} (hr : InRange h r) : InRange h' r := by
  cases r with
  | inl d => trivial
  | ptr j => exact Nat.lt_of_lt_of_le hr hl

theorem kidH_agree {h : Heap D} {f f' : Nat → Nat} (ha : Agree h.length f f') {r : Ref D} (hr : InRange h r) :
    kidH f' r = kidH f r := by
  cases r with
  | inl d => rfl
  | ptr j => exact ha j hr

mutual
  /-- An edit keeps the heights: the returned reference has the height of the one handed in, old
  cells keep their height, new cells (clones, promoted leaves) get one. -/
  theorem editRef_hgt : ∀ (spec : EditSpec D) (h : Heap D) (r : Ref D) (X : List (Ref D)) (f : Nat → Nat),
      WF h (r :: X) → Hgt h f → InRange h r →
      ∃ f', Agree h.length f f' ∧ Hgt (editRef h r spec).1 f' ∧ kidH f' (editRef h r spec).2 = kidH f r ∧
        InRange (editRef h r spec).1 (editRef h r spec).2
    | .skip, h, r, X, f, _, hh, hr => by
      unfold editRef
      exact ⟨f, Agree.refl _ _, hh, rfl, hr⟩
    | .visit nd promote specs, h, .inl d, X, f, _, hh, _ => by
      unfold editRef
      by_cases hp : promote = true
      · simp only [hp, if_true]
        obtain ⟨f', hag, hv, hh'⟩ := hgt_alloc hh [] nd 0 (fun j hj => by cases hj) (fun hne => absurd rfl hne)
        exact ⟨f', hag, hh', by simp [kidH, hv], by simp [InRange]⟩
      · simp only [hp]
        exact ⟨f, Agree.refl _ _, hh, rfl, trivial⟩
    | .visit nd promote specs, h, .ptr id0, X, f, hw, hh, _ => by
      obtain ⟨hw1, c, c', hc, hc', hrc, hkids, hdata⟩ := makeMut_wf hw
      obtain ⟨f1, hag1, hh1, hf1⟩ := makeMut_hgt hw hh
      have hdm1 := deadMono_makeMut h id0
      have hi := cellAt_lt hc'
      have hw2 := takeOut_wf hw1 hc' hrc
      have hh2 : Hgt ((makeMut h id0).1.set (makeMut h id0).2 none) f1 := hgt_kidsFrom (kidsFrom_set_none _ _) hh1
      have hlen2 : ((makeMut h id0).1.set (makeMut h id0).2 none).length = (makeMut h id0).1.length := by simp
      have hkr : ∀ k, k ∈ c'.kids → InRange ((makeMut h id0).1.set (makeMut h id0).2 none) k := by
        intro k hk
        cases k with
        | inl d => trivial
        | ptr j => simp only [InRange]; rw [hlen2]; exact (hh1.lt _ c' hc' j hk).2
      obtain ⟨f3, hag3, hh3, hbound, hne3⟩ := editKids_hgt specs _ c'.kids X f1 (f1 (makeMut h id0).2) hw2 hh2 hkr
        (fun j hj => (hh1.lt _ c' hc' j hj).1) (hh1.pos _ c' hc')
      have ih := editKids_ok specs ((makeMut h id0).1.set (makeMut h id0).2 none) c'.kids X hw2
      have hi2 : (makeMut h id0).2 < ((makeMut h id0).1.set (makeMut h id0).2 none).length := by simpa using hi
      have hi3 := Nat.lt_of_lt_of_le hi2 ih.2.1
      have hf3id : f3 (makeMut h id0).2 = f1 (makeMut h id0).2 := hag3 _ hi2
      unfold editRef
      simp only [hc']
      refine ⟨f3, Agree.trans hag1 (by rw [hlen2] at hag3; exact hag3) hdm1.1, ?_, ?_, ?_⟩
      · -- the rewritten cell with its new children
        refine ⟨fun i c2 hc2 j hj => ?_, fun i c2 hc2 hne => ?_⟩
        · rw [cellAt_set _ _ _ _ hi3] at hc2
          by_cases hii : i = (makeMut h id0).2
          · simp [hii] at hc2; subst hc2
            have := hbound j hj
            rw [hii, hf3id]; simp; exact ⟨this.1, this.2⟩
          · simp [hii] at hc2
            have := hh3.lt i c2 hc2 j hj
            simp; exact this
        · rw [cellAt_set _ _ _ _ hi3] at hc2
          by_cases hii : i = (makeMut h id0).2
          · simp [hii] at hc2; subst hc2
            rw [hii, hf3id]
            exact hh1.pos _ c' hc' (hne3 hne)
          · simp [hii] at hc2
            exact hh3.pos i c2 hc2 hne
      · simp only [kidH]; rw [hf3id, hf1]
      · simp only [InRange, List.length_set]; exact hi3
  theorem editKids_hgt : ∀ (specs : List (EditSpec D)) (h : Heap D) (ks : List (Ref D)) (X : List (Ref D))
      (f : Nat → Nat) (B : Nat), WF h (ks ++ X) → Hgt h f → (∀ k, k ∈ ks → InRange h k) →
      (∀ j, Ref.ptr j ∈ ks → f j < B) → (ks ≠ [] → 1 ≤ B) →
      ∃ f', Agree h.length f f' ∧ Hgt (editKids h ks specs).1 f' ∧
        (∀ j, Ref.ptr j ∈ (editKids h ks specs).2 → f' j < B ∧ j < (editKids h ks specs).1.length) ∧
        ((editKids h ks specs).2 ≠ [] → ks ≠ [])
    | _, h, [], X, f, B, _, hh, _, _, _ => by
      unfold editKids
      exact ⟨f, Agree.refl _ _, hh, (fun j hj => by simp at hj), (fun hne => hne)⟩
    | [], h, k :: ks, X, f, B, _, hh, hkr, hb, _ => by
      unfold editKids
      refine ⟨f, Agree.refl _ _, hh, (fun j hj => ⟨hb j hj, ?_⟩), (fun hne => hne)⟩
      exact hkr _ hj
    | s :: ss, h, k :: ks, X, f, B, hw, hh, hkr, hb, hB => by
      have hw0 : WF h (k :: (ks ++ X)) := by simpa using hw
      obtain ⟨f1, hag1, hh1, hk1, hr1⟩ := editRef_hgt s h k (ks ++ X) f hw0 hh (hkr k List.mem_cons_self)
      have h1 := editRef_ok s h k (ks ++ X) hw0
      have hw1' : WF (editRef h k s).1 (ks ++ ((editRef h k s).2 :: X)) :=
        wf_perm h1.1 (fun id => by
          rw [cnt_cons, cnt_append, cnt_append, cnt_cons id (editRef h k s).2 X]; omega)
      have hlen1 := h1.2.1
      obtain ⟨f2, hag2, hh2, hb2, _⟩ := editKids_hgt ss (editRef h k s).1 ks ((editRef h k s).2 :: X) f1 B hw1' hh1
        (fun k' hk' => inRange_mono hlen1 (hkr k' (List.mem_cons_of_mem _ hk')))
        (fun j hj => by
          have hjr : j < h.length := hkr _ (List.mem_cons_of_mem _ hj)
          rw [hag1 j hjr]; exact hb j (List.mem_cons_of_mem _ hj))
        (fun _ => hB (List.cons_ne_nil _ _))
      have h2 := editKids_ok ss (editRef h k s).1 ks ((editRef h k s).2 :: X) hw1'
      unfold editKids
      simp only
      refine ⟨f2, Agree.trans hag1 hag2 hlen1, hh2, ?_, fun _ => List.cons_ne_nil _ _⟩
      intro j hj
      rcases List.mem_cons.mp hj with hj | hj
      · -- the edited first child: same height as before
        have hB1 : 1 ≤ B := hB (List.cons_ne_nil _ _)
        rw [← hj] at hr1 hk1
        simp only [InRange] at hr1
        refine ⟨?_, Nat.lt_of_lt_of_le hr1 h2.2.1⟩
        have hk1' : f1 j = kidH f k := hk1
        rw [hag2 j hr1, hk1']
        cases k with
        | inl d => show 0 < B; omega
        | ptr j0 => simp only [kidH]; exact hb j0 List.mem_cons_self
      · exact hb2 j hj
end


/-! ### builds (re-parse) keep the heights -/

mutual
  theorem build_len : ∀ (spec : BuildSpec D) (h : Heap D), h.length ≤ (build h spec).1.length
    | .reuse r, h => by unfold build; rw [length_retain]; exact Nat.le_refl _
    | .leaf d, h => by unfold build; exact Nat.le_refl _
    | .node d specs, h => by
      unfold build
      have := buildKids_len specs h
      simp only [List.length_append, List.length_singleton]; omega
  theorem buildKids_len : ∀ (specs : List (BuildSpec D)) (h : Heap D), h.length ≤ (buildKids h specs).1.length
    | [], h => by unfold buildKids; exact Nat.le_refl _
    | s :: ss, h => by
      unfold buildKids
      exact Nat.le_trans (build_len s h) (buildKids_len ss _)
end

theorem le_sum_of_mem {l : List Nat} {x : Nat} (hx : x ∈ l) : x ≤ l.sum := by
  induction l with
  | nil => cases hx
  | cons y ys ih =>
    rcases List.mem_cons.mp hx with h | h
    · subst h; simp
    · have := ih h; simp only [List.sum_cons]; omega

theorem kidsFrom_of_ext_rev {h h' : Heap D} (hl : h.length ≤ h'.length)
    (hk : ∀ i c', cellAt h' i = some c' → ∃ c, cellAt h i = some c ∧ c.kids = c'.kids) : KidsFrom h h' := ⟨hl, hk⟩

mutual
  theorem build_hgt : ∀ (spec : BuildSpec D) (h : Heap D) (f : Nat → Nat), Hgt h f → reusedLive h spec = true →
      ∃ f', Agree h.length f f' ∧ Hgt (build h spec).1 f' ∧ InRange (build h spec).1 (build h spec).2
    | .reuse (.inl d), h, f, hh, _ => by
      unfold build
      exact ⟨f, Agree.refl _ _, hh, trivial⟩
    | .reuse (.ptr i), h, f, hh, hl => by
      unfold reusedLive at hl
      unfold build
      refine ⟨f, Agree.refl _ _, hgt_kidsFrom (kidsFrom_retain h (.ptr i)) hh, ?_⟩
      simp only [InRange, length_retain]
      cases hc : cellAt h i with
      | none => rw [hc] at hl; cases hl
      | some c => exact cellAt_lt hc
    | .leaf d, h, f, hh, _ => by
      unfold build
      exact ⟨f, Agree.refl _ _, hh, trivial⟩
    | .node d specs, h, f, hh, hl => by
      unfold reusedLive at hl
      obtain ⟨f1, hag1, hh1, hr1⟩ := buildKids_hgt specs h f hh hl
      unfold build
      simp only
      obtain ⟨f2, hag2, hv, hh2⟩ := hgt_alloc hh1 (buildKids h specs).2 d
        (1 + ((buildKids h specs).2.map (kidH f1)).sum)
        (fun j hj => by
          have hm : kidH f1 (Ref.ptr j : Ref D) ∈ (buildKids h specs).2.map (kidH f1) := List.mem_map_of_mem hj
          have := le_sum_of_mem hm
          simp only [kidH] at this
          exact ⟨by omega, hr1 _ hj⟩)
        (fun _ => by omega)
      refine ⟨f2, Agree.trans hag1 hag2 (buildKids_len specs h), hh2, ?_⟩
      simp [InRange]
  theorem buildKids_hgt : ∀ (specs : List (BuildSpec D)) (h : Heap D) (f : Nat → Nat), Hgt h f →
      reusedLiveL h specs = true →
      ∃ f', Agree h.length f f' ∧ Hgt (buildKids h specs).1 f' ∧
        ∀ k, k ∈ (buildKids h specs).2 → InRange (buildKids h specs).1 k
    | [], h, f, hh, _ => by
      unfold buildKids
      exact ⟨f, Agree.refl _ _, hh, fun k hk => by cases hk⟩
    | s :: ss, h, f, hh, hl => by
      unfold reusedLiveL at hl
      simp only [Bool.and_eq_true] at hl
      obtain ⟨f1, hag1, hh1, hr1⟩ := build_hgt s h f hh hl.1
      have hl2 := reusedLiveL_ext (build_ext s h) ss hl.2
      obtain ⟨f2, hag2, hh2, hr2⟩ := buildKids_hgt ss (build h s).1 f1 hh1 hl2
      unfold buildKids
      simp only
      refine ⟨f2, Agree.trans hag1 hag2 (build_len s h), hh2, ?_⟩
      intro k hk
      rcases List.mem_cons.mp hk with hk | hk
      · subst hk; exact inRange_mono (buildKids_len ss _) hr1
      · exact hr2 k hk
end

/-! ### no cycles, no roots ⇒ no cells -/

theorem mem_of_cnt_pos {i : Nat} : ∀ {rs : List (Ref D)}, 0 < cnt i rs → Ref.ptr i ∈ rs
  | [], h => by simp at h
  | .inl d :: rs, h => List.mem_cons_of_mem _ (mem_of_cnt_pos (by simpa [cnt] using h))
  | .ptr j :: rs, h => by
    by_cases hji : j = i
    · subst hji; exact List.mem_cons_self
    · exact List.mem_cons_of_mem _ (mem_of_cnt_pos (by simpa [cnt, hji] using h))

theorem exists_parent {i : Nat} : ∀ (h : Heap D), 0 < cnt i (kidsOf h) →
    ∃ p c, cellAt h p = some c ∧ Ref.ptr i ∈ c.kids
  | [], hpos => by simp [kidsOf_nil] at hpos
  | x :: h, hpos => by
    rw [kidsOf_cons, cnt_append] at hpos
    by_cases hx : 0 < cnt i (kidsOpt x)
    · cases x with
      | none => simp [kidsOpt] at hx
      | some c => exact ⟨0, c, by simp [cellAt], mem_of_cnt_pos hx⟩
    · have hp2 : 0 < cnt i (kidsOf h) := by omega
      obtain ⟨p, c, hc, hm⟩ := exists_parent h hp2
      refine ⟨p + 1, c, ?_, hm⟩
      unfold cellAt at hc ⊢
      simpa using hc

theorem lt_bound (f : Nat → Nat) : ∀ (n i : Nat), i < n → f i < 1 + ((List.range n).map f).sum := by
  intro n i hi
  have : f i ∈ (List.range n).map f := List.mem_map_of_mem (List.mem_range.mpr hi)
  have := le_sum_of_mem this
  omega

/-- With exact counts, no roots and no cycles there is no live cell. -/
theorem empty_of_no_roots {h : Heap D} {f : Nat → Nat} (hw : WF h []) (hh : Hgt h f) :
    ∀ i, cellAt h i = none := by
  have key : ∀ d i c, cellAt h i = some c → (1 + ((List.range h.length).map f).sum) - f i = d → False := by
    intro d
    induction d using Nat.strongRecOn with
    | ind d ih =>
      intro i c hc hd
      have hpos := hw.pos i c hc
      have hcount := hw.count i
      have hrc : rcOf h i = c.rc := by unfold rcOf; rw [hc]
      have hz : cnt i ([] : List (Ref D)) = 0 := rfl
      rw [hz] at hcount
      have hp2 : 0 < cnt i (kidsOf h) := by omega
      obtain ⟨p, cp, hcp, hm⟩ := exists_parent h hp2
      have hlt := (hh.lt p cp hcp i hm).1
      have hb := lt_bound f h.length p (cellAt_lt hcp)
      exact ih _ (by omega) p cp hcp rfl
  intro i
  cases hc : cellAt h i with
  | none => rfl
  | some c => exact (key _ i c hc rfl).elim

end TsVerif.C08
