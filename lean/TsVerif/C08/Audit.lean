import TsVerif.C08.Props
import TsVerif.C08.Persistence
#print axioms TsVerif.C08.rc_invariant_copy
#print axioms TsVerif.C08.rc_invariant_edit
#print axioms TsVerif.C08.writes_exclusive
#print axioms TsVerif.C08.make_mut_result
#print axioms TsVerif.C08.freed_never_reused_edit
#print axioms TsVerif.C08.freed_never_reused_release
#print axioms TsVerif.C08.rc_invariant_delete
#print axioms TsVerif.C08.rc_invariant
#print axioms TsVerif.C08.no_dangling_no_garbage
#print axioms TsVerif.C08.edit_isolated
#print axioms TsVerif.C08.delete_isolated
#print axioms TsVerif.C08.copy_isolated
#print axioms TsVerif.C08.rc_invariant_reparse
#print axioms TsVerif.C08.reparse_isolated
#print axioms TsVerif.C08.interleaving_eq_sequential_counts
#print axioms TsVerif.C08.no_lost_update_counts
#print axioms TsVerif.C08.acyclic_invariant
#print axioms TsVerif.C08.heap_empty_after_last_delete
#print axioms TsVerif.C08.accesses_commute
#print axioms TsVerif.C08.interleaving_eq_sequential
#print axioms TsVerif.C08.reachable_live
#print axioms TsVerif.C08.make_mut_never_mutates_shared
#print axioms TsVerif.C08.observation_stable
#print axioms TsVerif.C08.persistence
