import TsVerif.C08.Props
/-!
# C08 — the persistence theorem, as one invariant by induction over operations

`persistence` packages what `Props.lean` proves operation by operation into the shape of the
property: take ANY history of `copy / edit / delete / reparse` operations (each of which is a
composition of the primitive `retain / release / make_mut / clone` steps of `Model.lean`) from
any valid state.  Then, in every state the history passes through,

* (a) **no cell is freed while it is reachable from a live handle** (`Reachable`: a handle's root,
  or a child of a reachable live cell) — `reachable_live`;
* (b) **`make_mut` never lets a shared cell be written**: the cell it hands to the writer has count
  1 and *no other reference at all* — no other owner in the context, no child link of any live cell
  — and every cell that existed before (the shared original included) keeps its children and payload
  — `make_mut_never_mutates_shared`;
* (c) **what a handle observes changes only through an edit (or delete) of that very handle**: for
  every handle `h'` that the history neither edits nor deletes, the root stored in `h'` and the
  whole tree unfolded from it are the same after the history as before — `observation_stable`.

The ties are those of the check: every operation of a real history is replayed on the model and the
predicted heap (counts, sharing, payloads) is compared with the dump of the real heap
(correspondence), the invariant `SWF` and the isolation of every other handle are evaluated on the
real dumps (judge), and the atomicity / exclusivity assumptions are probed on the real code
(`cunit_c08`: 16-thread lost-update probe, concurrent retain/release, `make_mut` in place iff
unshared).
-/
namespace TsVerif.C08

variable {D : Type}

/-- Cells reachable from a live handle. -/
inductive Reachable (s : State D) : Nat → Prop
  | root {h i : Nat} : s.root h = some (.ptr i) → Reachable s i
  | kid {i j : Nat} {c : Cell D} : Reachable s i → cellAt s.heap i = some c → Ref.ptr j ∈ c.kids → Reachable s j

/-- (a) In a valid state every reachable cell is live: nothing reachable has been freed. -/
theorem reachable_live {s : State D} (hw : SWF s) : ∀ i, Reachable s i → ∃ c, cellAt s.heap i = some c := by
  intro i hr
  induction hr with
  | root hroot =>
    apply (no_dangling_no_garbage hw).1
    simp only [State.refs, List.mem_append]
    exact Or.inl (root_mem hroot)
  | @kid i j c _ hc hj _ =>
    apply hw.live
    have h1 := cnt_pos_of_mem hj
    have h2 := cnt_kids_le j s.heap i c hc
    omega

/-- (b) The cell `make_mut` hands to the writer is referenced by the writer alone, and no existing
cell — in particular not the shared original — changes children or payload. -/
theorem make_mut_never_mutates_shared {h : Heap D} {X : List (Ref D)} {i : Nat} (hw : WF h (.ptr i :: X)) :
    rcOf (makeMut h i).1 (makeMut h i).2 = 1 ∧
    cnt (makeMut h i).2 X = 0 ∧ cnt (makeMut h i).2 (kidsOf (makeMut h i).1) = 0 ∧
    Ext h (makeMut h i).1 := by
  obtain ⟨hw', c, c', _, hc', hrc, _, _⟩ := make_mut_result hw
  have h1 : rcOf (makeMut h i).1 (makeMut h i).2 = 1 := by unfold rcOf; rw [hc']; exact hrc
  have := hw'.count (makeMut h i).2
  simp only [cnt_cons_ptr, if_true] at this
  exact ⟨h1, by omega, by omega, makeMut_ext hw⟩

/-- Does the operation write through handle `h'` (edit it or end it)? -/
def Op.touches (h' : Nat) : Op D → Prop
  | .edit h _ => h = h'
  | .delete h => h = h'
  | .copy _ => False
  | .reparse _ => False

theorem copy_root (s : State D) (h h' : Nat) (r' : Ref D) (hr' : s.root h' = some r') :
    (s.copy h).root h' = some r' := by
  unfold State.copy
  cases hr : s.root h with
  | none => exact hr'
  | some r =>
    have hk := root_handles hr'
    have hlt : h' < s.handles.length := by
      rcases Nat.lt_or_ge h' s.handles.length with h1 | h1
      · exact h1
      · rw [List.getElem?_eq_none h1] at hk; cases hk
    unfold State.root
    simp only
    rw [List.getElem?_append_left hlt, hk]

/-- One operation that does not touch `h'` preserves its root and its observation. -/
theorem apply_isolated (s : State D) (op : Op D) (hw : SWF s) (h' : Nat) (hnt : ¬ op.touches h')
    (r' : Ref D) (hr' : s.root h' = some r') :
    (s.apply op).root h' = some r' ∧
    ∀ (f : Nat) (t : OTree D), unfold f s.heap r' = some t → unfold f (s.apply op).heap r' = some t := by
  cases op with
  | copy h => exact ⟨copy_root s h h' r' hr', fun f t hu => copy_isolated s h r' f t hu⟩
  | edit h spec => exact edit_isolated s h h' spec hw (fun e => hnt e.symm) r' hr'
  | delete h => exact delete_isolated s h h' hw (fun e => hnt e.symm) r' hr'
  | reparse spec => exact reparse_isolated s spec h' r' hr'

/-- (c) Over a whole history: a handle that the history neither edits nor deletes keeps its root and
its whole observable tree. -/
theorem observation_stable (ops : List (Op D)) : ∀ (s : State D), SWF s → ∀ (h' : Nat),
    (∀ op ∈ ops, ¬ Op.touches h' op) → ∀ (r' : Ref D), s.root h' = some r' →
    (ops.foldl State.apply s).root h' = some r' ∧
    ∀ (f : Nat) (t : OTree D), unfold f s.heap r' = some t → unfold f (ops.foldl State.apply s).heap r' = some t := by
  induction ops with
  | nil => intro s _ h' _ r' hr'; exact ⟨hr', fun _ _ hu => hu⟩
  | cons op ops ih =>
    intro s hw h' hnt r' hr'
    simp only [List.foldl_cons]
    have h1 := apply_isolated s op hw h' (hnt op (by simp)) r' hr'
    have hw1 : SWF (s.apply op) := rc_invariant [op] s hw
    have h2 := ih (s.apply op) hw1 h' (fun o ho => hnt o (by simp [ho])) r' h1.1
    exact ⟨h2.1, fun f t hu => h2.2 f t (h1.2 f t hu)⟩

/-- **Persistence** (the property's statement over the reference-count model): from any valid state,
after any prefix of any history of copy / edit / delete / re-parse operations,
the state is valid (`ref_count = number of owners` for every id), nothing reachable from a live handle
is freed, and every handle that the prefix neither edited nor deleted still holds the same root and
observes the same tree. -/
theorem persistence (ops : List (Op D)) (s : State D) (hw : SWF s) :
    SWF (ops.foldl State.apply s) ∧
    (∀ i, Reachable (ops.foldl State.apply s) i → ∃ c, cellAt (ops.foldl State.apply s).heap i = some c) ∧
    (∀ (h' : Nat), (∀ op ∈ ops, ¬ Op.touches h' op) → ∀ (r' : Ref D), s.root h' = some r' →
      (ops.foldl State.apply s).root h' = some r' ∧
      ∀ (f : Nat) (t : OTree D), unfold f s.heap r' = some t → unfold f (ops.foldl State.apply s).heap r' = some t) :=
  ⟨rc_invariant ops s hw, reachable_live (rc_invariant ops s hw), fun h' hnt r' hr' => observation_stable ops s hw h' hnt r' hr'⟩

/-- Non-vacuity: two handles on one shared cell; handle 0 is edited (the shared cell is rewritten),
copied, the copy deleted, handle 0 deleted — handle 1, untouched by the history, still observes
`1(5)`; the invariant's consequence (a) is not vacuous either: cell 0 stays live to the end. -/
example :
    let s : State Nat := { heap := [some { rc := 2, kids := [.inl 5], data := 1 }], handles := [some (.ptr 0), some (.ptr 0)] }
    let ops : List (Op Nat) := [.edit 0 (.visit 9 false [.visit 6 false []]), .copy 0, .delete 2, .delete 0]
    let s' := ops.foldl State.apply s
    s'.root 1 = some (.ptr 0) ∧ cellAt s'.heap 0 = some { rc := 1, kids := [.inl 5], data := 1 } ∧
    cellAt s'.heap 1 = none ∧ s'.root 0 = none := by
  decide

/-! ## The observation is defined: with enough fuel `unfold` succeeds on every live reference

`observation_stable` speaks about `unfold f s.heap r' = some t`; it would be empty talk if `unfold`
could fail for every fuel.  In a valid acyclic state it succeeds as soon as the fuel exceeds the
height of the root. -/

/-- What `unfold` needs of a reference at fuel `n`: inline, or a live cell of height below `n`. -/
def Unfoldable (h : Heap D) (g : Nat → Nat) (n : Nat) : Ref D → Prop
  | .inl _ => True
  | .ptr i => (∃ c, cellAt h i = some c) ∧ g i < n

theorem unfoldL_total_of {h : Heap D} {g : Nat → Nat} (n : Nat)
    (ih : ∀ r, Unfoldable h g n r → ∃ t, unfold n h r = some t) :
    ∀ ks : List (Ref D), (∀ k ∈ ks, Unfoldable h g n k) → ∃ ts, unfoldL n h ks = some ts
  | [], _ => ⟨[], by unfold unfoldL; rfl⟩
  | k :: ks, hk => by
    obtain ⟨t, ht⟩ := ih k (hk k (by simp))
    obtain ⟨ts, hts⟩ := unfoldL_total_of n ih ks (fun x hx => hk x (by simp [hx]))
    exact ⟨t :: ts, by unfold unfoldL; rw [ht, hts]⟩

/-- `unfold` is total on live references of a heap with a height function in which every child link
of a live cell points to a live cell. -/
theorem unfold_total {h : Heap D} {g : Nat → Nat} (hh : Hgt h g)
    (hclosed : ∀ i c, cellAt h i = some c → ∀ j, Ref.ptr j ∈ c.kids → ∃ c', cellAt h j = some c') :
    ∀ (n : Nat) (r : Ref D), Unfoldable h g n r → ∃ t, unfold n h r = some t := by
  intro n
  induction n with
  | zero =>
    intro r hr
    cases r with
    | inl d => exact ⟨.mk d [], by unfold unfold; rfl⟩
    | ptr i => exact absurd hr.2 (Nat.not_lt_zero _)
  | succ n ih =>
    intro r hr
    cases r with
    | inl d => exact ⟨.mk d [], by unfold unfold; rfl⟩
    | ptr i =>
      obtain ⟨⟨c, hc⟩, hlt⟩ := hr
      have hk : ∀ k ∈ c.kids, Unfoldable h g n k := by
        intro k hk
        cases k with
        | inl d => trivial
        | ptr j =>
          refine ⟨hclosed i c hc j hk, ?_⟩
          have := (hh.lt i c hc j hk).1
          omega
      obtain ⟨ts, hts⟩ := unfoldL_total_of n ih c.kids hk
      exact ⟨.mk c.data ts, by unfold unfold; rw [hc]; simp [hts]⟩

/-- In a valid acyclic state every handle observes a tree (for every fuel above the root's height). -/
theorem observation_defined {s : State D} (hw : SWF s) (ha : Acyclic s) (h' : Nat) (r' : Ref D)
    (hr' : s.root h' = some r') : ∃ f t, unfold f s.heap r' = some t := by
  obtain ⟨g, hg⟩ := ha
  have hclosed : ∀ i c, cellAt s.heap i = some c → ∀ j, Ref.ptr j ∈ c.kids → ∃ c', cellAt s.heap j = some c' := by
    intro i c hc j hj
    apply hw.live
    have h1 := cnt_pos_of_mem hj
    have h2 := cnt_kids_le j s.heap i c hc
    omega
  cases r' with
  | inl d => exact ⟨0, .mk d [], by unfold unfold; rfl⟩
  | ptr i =>
    have hlive : ∃ c, cellAt s.heap i = some c := by
      apply (no_dangling_no_garbage hw).1
      simp only [State.refs, List.mem_append]
      exact Or.inl (root_mem hr')
    obtain ⟨t, ht⟩ := unfold_total hg hclosed (g i + 1) (.ptr i) ⟨hlive, Nat.lt_succ_self _⟩
    exact ⟨g i + 1, t, ht⟩

/-! ## From nothing: the hypotheses of `persistence` are reachable -/

/-- The state before the first parse: no cells, no handles. -/
def State.empty : State D := { heap := [], handles := [] }

theorem swf_empty : SWF (State.empty : State D) :=
  ⟨fun id => by simp [State.empty, rcOf, cellAt, rootsOf, kidsOf], fun id c hc => by simp [State.empty, cellAt] at hc⟩

theorem acyclic_empty : Acyclic (State.empty : State D) :=
  ⟨fun _ => 0, ⟨fun i c hc => by simp [State.empty, cellAt] at hc, fun i c hc => by simp [State.empty, cellAt] at hc⟩⟩

/-- **Persistence for every family of handles that descends from parses**: start with nothing, apply
any history (the first operations being parses = `reparse` with any build specification); every
state on the way is valid and acyclic, every handle observes a tree, and `persistence` applies to
every suffix of the history. -/
theorem persistence_from_empty (pre ops : List (Op D)) :
    let s := pre.foldl State.apply (State.empty : State D)
    SWF s ∧ Acyclic s ∧
    (∀ h' r', s.root h' = some r' → ∃ f t, unfold f s.heap r' = some t) ∧
    SWF (ops.foldl State.apply s) ∧
    (∀ i, Reachable (ops.foldl State.apply s) i → ∃ c, cellAt (ops.foldl State.apply s).heap i = some c) ∧
    (∀ (h' : Nat), (∀ op ∈ ops, ¬ Op.touches h' op) → ∀ (r' : Ref D), s.root h' = some r' →
      (ops.foldl State.apply s).root h' = some r' ∧
      ∀ (f : Nat) (t : OTree D), unfold f s.heap r' = some t → unfold f (ops.foldl State.apply s).heap r' = some t) := by
  intro s
  have hw : SWF s := rc_invariant pre _ swf_empty
  have ha : Acyclic s := (acyclic_invariant pre _ swf_empty acyclic_empty).2
  have hp := persistence ops s hw
  exact ⟨hw, ha, fun h' r' hr' => observation_defined hw ha h' r' hr', hp.1, hp.2.1, hp.2.2⟩

/-- Non-vacuity: parse a node with two leaves from nothing, copy, edit the copy; handle 0 exists and
still observes `7(1, 2)`. -/
example :
    let pre : List (Op Nat) := [.reparse (.node 7 [.leaf 1, .leaf 2])]
    let s := pre.foldl State.apply (State.empty : State Nat)
    s.root 0 = some (.ptr 0) ∧ cellAt s.heap 0 = some { rc := 1, kids := [.inl 1, .inl 2], data := 7 } := by
  decide

end TsVerif.C08
