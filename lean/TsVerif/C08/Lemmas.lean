import TsVerif.C08.Model
/-!
# C08 — counting lemmas for the reference-counted heap
-/
namespace TsVerif.C08

variable {D : Type}

/-- Number of occurrences of `ptr id` in a list of references. -/
def cnt (id : Nat) : List (Ref D) → Nat
  | [] => 0
  | .ptr j :: rs => (if j = id then 1 else 0) + cnt id rs
  | .inl _ :: rs => cnt id rs

@[simp] theorem cnt_nil (id : Nat) : cnt id ([] : List (Ref D)) = 0 := rfl

theorem cnt_append (id : Nat) (a b : List (Ref D)) : cnt id (a ++ b) = cnt id a + cnt id b := by
  induction a with
  | nil => simp
  | cons r rs ih =>
    cases r with
    | inl d => simpa [cnt] using ih
    | ptr j => simp only [List.cons_append, cnt, ih]; omega

def kidsOpt : Option (Cell D) → List (Ref D)
  | some c => c.kids
  | none => []

theorem kidsOf_eq (h : Heap D) : kidsOf h = h.flatMap kidsOpt := by
  unfold kidsOf
  congr 1

theorem kidsOf_nil : kidsOf ([] : Heap D) = [] := rfl

theorem kidsOf_cons (o : Option (Cell D)) (h : Heap D) : kidsOf (o :: h) = kidsOpt o ++ kidsOf h := by
  simp [kidsOf_eq]

theorem kidsOf_append (a b : Heap D) : kidsOf (a ++ b) = kidsOf a ++ kidsOf b := by
  simp [kidsOf_eq]

/-- Replacing slot `i`: the child references of the old slot go, those of the new one come. -/
theorem cnt_kidsOf_set (id : Nat) : ∀ (h : Heap D) (i : Nat) (o : Option (Cell D)), i < h.length →
    cnt id (kidsOf (h.set i o)) + cnt id (kidsOpt (h[i]?.getD none)) = cnt id (kidsOf h) + cnt id (kidsOpt o)
  | [], i, o, hi => by simp at hi
  | x :: h, 0, o, _ => by
    simp only [List.set_cons_zero, kidsOf_cons, cnt_append, List.getElem?_cons_zero, Option.getD_some]
    omega
  | x :: h, i + 1, o, hi => by
    have := cnt_kidsOf_set id h i o (by simpa using hi)
    simp only [List.set_cons_succ, kidsOf_cons, cnt_append, List.getElem?_cons_succ]
    omega

theorem cellAt_some {h : Heap D} {id : Nat} {c : Cell D} (hc : cellAt h id = some c) :
    h[id]? = some (some c) := by
  unfold cellAt at hc
  split at hc
  · rename_i c' heq; cases hc; exact heq
  · cases hc

theorem cellAt_lt {h : Heap D} {id : Nat} {c : Cell D} (hc : cellAt h id = some c) : id < h.length := by
  have := cellAt_some hc
  rcases Nat.lt_or_ge id h.length with h1 | h1
  · exact h1
  · rw [List.getElem?_eq_none h1] at this; cases this

theorem cellAt_set (h : Heap D) (i j : Nat) (o : Option (Cell D)) (hi : i < h.length) :
    cellAt (h.set i o) j = if j = i then o else cellAt h j := by
  unfold cellAt
  rw [List.getElem?_set]
  by_cases hji : j = i
  · subst hji; simp [hi]; cases o <;> rfl
  · have : ¬ i = j := fun e => hji e.symm
    simp [hji, this]

theorem cellAt_append_left (h : Heap D) (x : Heap D) (j : Nat) (hj : j < h.length) : cellAt (h ++ x) j = cellAt h j := by
  unfold cellAt
  rw [List.getElem?_append_left hj]

theorem cellAt_append_new (h : Heap D) (c : Cell D) : cellAt (h ++ [some c]) h.length = some c := by
  unfold cellAt
  simp

theorem cellAt_ge (h : Heap D) (j : Nat) (hj : h.length ≤ j) : cellAt h j = none := by
  unfold cellAt
  rw [List.getElem?_eq_none hj]

theorem rcOf_set (h : Heap D) (i j : Nat) (c : Cell D) (hi : i < h.length) :
    rcOf (h.set i (some c)) j = if j = i then c.rc else rcOf h j := by
  unfold rcOf
  rw [cellAt_set h i j _ hi]
  by_cases hji : j = i <;> simp [hji]

theorem rcOf_set_none (h : Heap D) (i j : Nat) (hi : i < h.length) :
    rcOf (h.set i none) j = if j = i then 0 else rcOf h j := by
  unfold rcOf
  rw [cellAt_set h i j _ hi]
  by_cases hji : j = i <;> simp [hji]

/-- The invariant: every id's stored count (0 for dead ids) equals the number of references to it
held by the given owner list plus by child links of live cells; live cells have a positive count. -/
structure WF (h : Heap D) (owners : List (Ref D)) : Prop where
  count : ∀ id, rcOf h id = cnt id owners + cnt id (kidsOf h)
  pos : ∀ id c, cellAt h id = some c → 1 ≤ c.rc

theorem wf_perm {h : Heap D} {a b : List (Ref D)} (hw : WF h a) (hp : ∀ id, cnt id a = cnt id b) : WF h b :=
  ⟨fun id => by rw [hw.count id, hp id], hw.pos⟩

/-- An id that is referenced is live. -/
theorem WF.live {h : Heap D} {owners : List (Ref D)} (hw : WF h owners) {id : Nat}
    (hpos : 0 < cnt id owners + cnt id (kidsOf h)) : ∃ c, cellAt h id = some c := by
  have := hw.count id
  unfold rcOf at this
  cases hc : cellAt h id with
  | some c => exact ⟨c, rfl⟩
  | none => rw [hc] at this; simp at this; omega

/-! ### setRc / incr / decr -/

theorem setRc_of_cell {h : Heap D} {id : Nat} {c : Cell D} (hc : cellAt h id = some c) (f : Nat → Nat) :
    setRc h id f = h.set id (some { c with rc := f c.rc }) := by
  unfold setRc; rw [hc]

theorem kidsOf_setRc (h : Heap D) (id : Nat) (f : Nat → Nat) (a : Nat) :
    cnt a (kidsOf (setRc h id f)) = cnt a (kidsOf h) := by
  cases hc : cellAt h id with
  | none => unfold setRc; rw [hc]
  | some c =>
    rw [setRc_of_cell hc]
    have := cnt_kidsOf_set a h id (some { c with rc := f c.rc }) (cellAt_lt hc)
    rw [cellAt_some hc] at this
    simp only [Option.getD_some, kidsOpt] at this
    omega

theorem rcOf_setRc (h : Heap D) (id j : Nat) (f : Nat → Nat) :
    rcOf (setRc h id f) j = if j = id ∧ (cellAt h id).isSome then f (rcOf h id) else rcOf h j := by
  cases hc : cellAt h id with
  | none => unfold setRc; rw [hc]; simp
  | some c =>
    rw [setRc_of_cell hc, rcOf_set _ _ _ _ (cellAt_lt hc)]
    by_cases hji : j = id
    · subst hji; simp [rcOf, hc]
    · simp [hji]

theorem cellAt_setRc_ne (h : Heap D) (id j : Nat) (f : Nat → Nat) (hne : j ≠ id) :
    cellAt (setRc h id f) j = cellAt h j := by
  cases hc : cellAt h id with
  | none => unfold setRc; rw [hc]
  | some c => rw [setRc_of_cell hc, cellAt_set _ _ _ _ (cellAt_lt hc)]; simp [hne]

theorem cellAt_setRc_self (h : Heap D) (id : Nat) (f : Nat → Nat) {c : Cell D} (hc : cellAt h id = some c) :
    cellAt (setRc h id f) id = some { c with rc := f c.rc } := by
  rw [setRc_of_cell hc, cellAt_set _ _ _ _ (cellAt_lt hc)]; simp

theorem length_setRc (h : Heap D) (id : Nat) (f : Nat → Nat) : (setRc h id f).length = h.length := by
  unfold setRc; split <;> simp

/-- `retain` adds one owner. -/
theorem retain_wf {h : Heap D} {owners : List (Ref D)} (r : Ref D) (hw : WF h owners)
    (hlive : ∀ id, r = .ptr id → ∃ c, cellAt h id = some c) : WF (retain h r) (r :: owners) := by
  cases r with
  | inl d => exact ⟨fun id => by simpa [retain, cnt] using hw.count id, hw.pos⟩
  | ptr i =>
    obtain ⟨c, hc⟩ := hlive i rfl
    refine ⟨fun id => ?_, ?_⟩
    · simp only [retain, incr, rcOf_setRc, kidsOf_setRc, cnt, hc, Option.isSome_some, and_true]
      have := hw.count id
      by_cases hid : id = i
      · subst hid; simp; omega
      · have : ¬ i = id := fun e => hid e.symm
        simp [hid, this]; omega
    · intro id c' hc'
      by_cases hid : id = i
      · subst hid
        simp only [retain, incr] at hc'
        rw [cellAt_setRc_self _ _ _ hc] at hc'
        cases hc'; simp
      · simp only [retain, incr] at hc'
        rw [cellAt_setRc_ne _ _ _ _ hid] at hc'
        exact hw.pos id c' hc'

/-- Dropping one owner of a cell whose count stays positive. -/
theorem decr_wf {h : Heap D} {owners : List (Ref D)} {i : Nat} (hw : WF h (.ptr i :: owners))
    (hrc : 2 ≤ rcOf h i) : WF (decr h i) owners := by
  have hlive : ∃ c, cellAt h i = some c := by
    unfold rcOf at hrc
    cases hc : cellAt h i with
    | some c => exact ⟨c, rfl⟩
    | none => rw [hc] at hrc; simp at hrc
  obtain ⟨c, hc⟩ := hlive
  refine ⟨fun id => ?_, ?_⟩
  · simp only [decr, rcOf_setRc, kidsOf_setRc, hc, Option.isSome_some, and_true]
    have := hw.count id
    simp only [cnt] at this
    by_cases hid : id = i
    · subst hid; simp at this ⊢; omega
    · have h2 : ¬ i = id := fun e => hid e.symm
      simp [hid, h2] at this ⊢; omega
  · intro id c' hc'
    by_cases hid : id = i
    · subst hid
      simp only [decr] at hc'
      rw [cellAt_setRc_self _ _ _ hc] at hc'
      cases hc'
      simp only [rcOf, hc] at hrc
      simp; omega
    · simp only [decr] at hc'
      rw [cellAt_setRc_ne _ _ _ _ hid] at hc'
      exact hw.pos id c' hc'


/-! ### liveness is not changed by count updates -/

theorem isSome_setRc (h : Heap D) (id j : Nat) (f : Nat → Nat) :
    (cellAt (setRc h id f) j).isSome = (cellAt h j).isSome := by
  by_cases hji : j = id
  · subst hji
    cases hc : cellAt h j with
    | none => unfold setRc; rw [hc]; simp [hc]
    | some c => rw [cellAt_setRc_self _ _ _ hc]; simp
  · rw [cellAt_setRc_ne _ _ _ _ hji]

theorem isSome_retain (h : Heap D) (r : Ref D) (j : Nat) : (cellAt (retain h r) j).isSome = (cellAt h j).isSome := by
  cases r with
  | inl d => rfl
  | ptr i => exact isSome_setRc h i j _

theorem length_retain (h : Heap D) (r : Ref D) : (retain h r).length = h.length := by
  cases r with
  | inl d => rfl
  | ptr i => exact length_setRc h i _

theorem length_retainAll (ks : List (Ref D)) : ∀ (h : Heap D), (retainAll h ks).length = h.length := by
  induction ks with
  | nil => intro h; rfl
  | cons k ks ih => intro h; simp only [retainAll, List.foldl_cons] at ih ⊢; rw [ih, length_retain]

/-- Kids and data of every cell are untouched by `retain`. -/
theorem cell_retain (h : Heap D) (r : Ref D) (j : Nat) :
    (cellAt (retain h r) j).map (fun c => (c.kids, c.data)) = (cellAt h j).map (fun c => (c.kids, c.data)) := by
  cases r with
  | inl d => rfl
  | ptr i =>
    simp only [retain, incr]
    by_cases hji : j = i
    · subst hji
      cases hc : cellAt h j with
      | none => unfold setRc; rw [hc]; simp [hc]
      | some c => rw [cellAt_setRc_self _ _ _ hc]; simp
    · rw [cellAt_setRc_ne _ _ _ _ hji]

theorem cell_retainAll (ks : List (Ref D)) : ∀ (h : Heap D) (j : Nat),
    (cellAt (retainAll h ks) j).map (fun c => (c.kids, c.data)) = (cellAt h j).map (fun c => (c.kids, c.data)) := by
  induction ks with
  | nil => intro h j; rfl
  | cons k ks ih => intro h j; simp only [retainAll, List.foldl_cons] at ih ⊢; rw [ih, cell_retain]

theorem cnt_cons_ptr (id j : Nat) (rs : List (Ref D)) : cnt id (.ptr j :: rs) = (if j = id then 1 else 0) + cnt id rs := rfl
theorem cnt_cons_inl (id : Nat) (d : D) (rs : List (Ref D)) : cnt id (.inl d :: rs) = cnt id rs := rfl

theorem cnt_cons (id : Nat) (r : Ref D) (rs : List (Ref D)) : cnt id (r :: rs) = cnt id [r] + cnt id rs := by
  cases r <;> simp [cnt]

/-- A reference that occurs in a list is counted. -/
theorem cnt_pos_of_mem {id : Nat} {rs : List (Ref D)} (h : Ref.ptr id ∈ rs) : 0 < cnt id rs := by
  induction rs with
  | nil => cases h
  | cons r rs ih =>
    cases h with
    | head => simp [cnt]; omega
    | tail _ h' => have := ih h'; rw [cnt_cons]; omega

/-- The children of a live cell are counted among the child links of the heap. -/
theorem cnt_kids_le (a : Nat) : ∀ (h : Heap D) (i : Nat) (c : Cell D), cellAt h i = some c →
    cnt a c.kids ≤ cnt a (kidsOf h)
  | [], i, c, hc => by simp [cellAt] at hc
  | x :: h, 0, c, hc => by
    have := cellAt_some hc
    simp at this; subst this
    simp [kidsOf_cons, cnt_append, kidsOpt]
  | x :: h, i + 1, c, hc => by
    have h1 : cellAt h i = some c := by
      have := cellAt_some hc
      simp at this
      unfold cellAt; rw [this]
    have := cnt_kids_le a h i c h1
    simp only [kidsOf_cons, cnt_append]; omega

theorem retainAll_wf (ks : List (Ref D)) : ∀ (h : Heap D) (owners : List (Ref D)), WF h owners →
    (∀ id, Ref.ptr id ∈ ks → ∃ c, cellAt h id = some c) → WF (retainAll h ks) (ks ++ owners) := by
  induction ks with
  | nil => intro h owners hw _; exact hw
  | cons k ks ih =>
    intro h owners hw hl
    simp only [retainAll, List.foldl_cons]
    have h1 : WF (retain h k) (k :: owners) := retain_wf k hw (fun id hk => hl id (by rw [hk]; exact List.mem_cons_self))
    have h2 := ih (retain h k) (k :: owners) h1 (by
      intro id hid
      obtain ⟨c, hc⟩ := hl id (List.mem_cons_of_mem _ hid)
      have := isSome_retain h k id
      rw [hc] at this
      cases hc' : cellAt (retain h k) id with
      | some c' => exact ⟨c', rfl⟩
      | none => rw [hc'] at this; cases this)
    refine wf_perm h2 (fun id => ?_)
    simp only [List.cons_append, cnt_append]
    rw [cnt_cons id k owners, cnt_cons id k (ks ++ owners), cnt_append]
    omega

/-! ### allocation of a fresh cell -/

theorem alloc_wf {h : Heap D} {owners : List (Ref D)} (kids : List (Ref D)) (d : D)
    (hw : WF h (kids ++ owners)) : WF (h ++ [some { rc := 1, kids := kids, data := d }]) (.ptr h.length :: owners) := by
  have hfresh := hw.count h.length
  have hz : rcOf h h.length = 0 := by unfold rcOf; rw [cellAt_ge h _ (Nat.le_refl _)]
  rw [hz, cnt_append] at hfresh
  refine ⟨fun id => ?_, ?_⟩
  · simp only [kidsOf_append, cnt_append, kidsOf_cons, kidsOf_nil, kidsOpt, List.append_nil, cnt_cons_ptr]
    by_cases hid : id = h.length
    · subst hid
      have : rcOf (h ++ [some ({ rc := 1, kids := kids, data := d } : Cell D)]) h.length = 1 := by
        unfold rcOf; rw [cellAt_append_new]
      rw [this]; simp; omega
    · have hne : ¬ h.length = id := fun e => hid e.symm
      have hr : rcOf (h ++ [some ({ rc := 1, kids := kids, data := d } : Cell D)]) id = rcOf h id := by
        unfold rcOf
        rcases Nat.lt_or_ge id h.length with hlt | hge
        · rw [cellAt_append_left _ _ _ hlt]
        · have : (h ++ [some ({ rc := 1, kids := kids, data := d } : Cell D)]).length ≤ id := by simp; omega
          rw [cellAt_ge _ _ this, cellAt_ge _ _ hge]
      rw [hr, hw.count id, cnt_append]; simp [hne]; omega
  · intro id c hc
    rcases Nat.lt_or_ge id h.length with hlt | hge
    · rw [cellAt_append_left _ _ _ hlt] at hc; exact hw.pos id c hc
    · by_cases hid : id = h.length
      · subst hid; rw [cellAt_append_new] at hc; cases hc; simp
      · have : (h ++ [some ({ rc := 1, kids := kids, data := d } : Cell D)]).length ≤ id := by simp; omega
        rw [cellAt_ge _ _ this] at hc; cases hc

/-- `ts_subtree_clone`: the clone is a new owner-less cell handed to the caller; the original and
its children keep consistent counts. -/
theorem clone_wf {h : Heap D} {owners : List (Ref D)} {i : Nat} {c : Cell D} (hw : WF h owners)
    (hc : cellAt h i = some c) : WF (clone h c).1 (.ptr (clone h c).2 :: owners) := by
  have hkl : ∀ id, Ref.ptr id ∈ c.kids → ∃ c', cellAt h id = some c' := by
    intro id hid
    apply hw.live
    have := cnt_kids_le id h i c hc
    have := cnt_pos_of_mem hid
    omega
  have h1 := retainAll_wf c.kids h owners hw hkl
  have := alloc_wf (h := retainAll h c.kids) c.kids c.data h1
  simpa [clone] using this

theorem rcOf_retain_ge (h : Heap D) (r : Ref D) (j : Nat) : rcOf h j ≤ rcOf (retain h r) j := by
  cases r with
  | inl d => exact Nat.le_refl _
  | ptr i =>
    simp only [retain, incr, rcOf_setRc]
    split
    · rename_i hh; rw [hh.1]; omega
    · exact Nat.le_refl _

theorem rcOf_retainAll_ge (ks : List (Ref D)) : ∀ (h : Heap D) (j : Nat), rcOf h j ≤ rcOf (retainAll h ks) j := by
  induction ks with
  | nil => intro h j; exact Nat.le_refl _
  | cons k ks ih =>
    intro h j
    simp only [retainAll, List.foldl_cons] at ih ⊢
    exact Nat.le_trans (rcOf_retain_ge h k j) (ih _ j)

/-- Result of `make_mut`: an exclusively owned cell with the same children and payload, and the
invariant with the caller now owning the result instead of the argument. -/
theorem makeMut_wf {h : Heap D} {X : List (Ref D)} {i : Nat} (hw : WF h (.ptr i :: X)) :
    WF (makeMut h i).1 (.ptr (makeMut h i).2 :: X) ∧
    ∃ c c', cellAt h i = some c ∧ cellAt (makeMut h i).1 (makeMut h i).2 = some c' ∧
      c'.rc = 1 ∧ c'.kids = c.kids ∧ c'.data = c.data := by
  obtain ⟨c, hc⟩ := hw.live (id := i) (by simp [cnt]; omega)
  unfold makeMut
  simp only [hc]
  by_cases h1 : c.rc = 1
  · simp only [h1, if_true]
    exact ⟨hw, c, c, rfl, hc, h1, rfl, rfl⟩
  · simp only [h1, if_false]
    have hpos := hw.pos i c hc
    have hcl := clone_wf hw hc
    -- after the clone the original still has ≥ 2 owners: release is a plain decrement
    have hlen : (retainAll h c.kids).length = h.length := length_retainAll _ _
    have hi_lt : i < (retainAll h c.kids).length := by rw [hlen]; exact cellAt_lt hc
    have hrc2 : 2 ≤ rcOf (clone h c).1 i := by
      have : rcOf (clone h c).1 i = rcOf (retainAll h c.kids) i := by
        unfold rcOf clone; simp only; rw [cellAt_append_left _ _ _ hi_lt]
      rw [this]
      have := rcOf_retainAll_ge c.kids h i
      have hr : rcOf h i = c.rc := by unfold rcOf; rw [hc]
      omega
    have hw2 : WF (clone h c).1 (.ptr i :: .ptr (clone h c).2 :: X) :=
      wf_perm hcl (fun id => by simp only [cnt_cons_ptr]; omega)
    have hdec := decr_wf hw2 hrc2
    have hrel : release (clone h c).1 (.ptr i) = decr (clone h c).1 i := by
      unfold release
      have : rcOf (decr (clone h c).1 i) i ≠ 0 := by
        have hlive : (cellAt (clone h c).1 i).isSome := by
          unfold rcOf at hrc2
          cases hx : cellAt (clone h c).1 i with
          | some _ => rfl
          | none => rw [hx] at hrc2; simp at hrc2
        simp only [decr, rcOf_setRc, hlive, and_true, if_true]
        omega
      simp [this]
    rw [hrel]
    refine ⟨hdec, c, { rc := 1, kids := c.kids, data := c.data }, rfl, ?_, rfl, rfl, rfl⟩
    have hne : (clone h c).2 ≠ i := by
      simp only [clone]; omega
    simp only [decr]
    rw [cellAt_setRc_ne _ _ _ _ hne]
    simp only [clone]
    exact cellAt_append_new _ _


/-! ### freed cells stay freed, ids are never reused -/

/-- `h'` extends `h`: no slot disappears and no freed (or never live) slot of `h` is live again. -/
def DeadMono (h h' : Heap D) : Prop :=
  h.length ≤ h'.length ∧ ∀ j, j < h.length → cellAt h j = none → cellAt h' j = none

theorem DeadMono.refl (h : Heap D) : DeadMono h h := ⟨Nat.le_refl _, fun _ _ hj => hj⟩

theorem DeadMono.trans {a b c : Heap D} (h1 : DeadMono a b) (h2 : DeadMono b c) : DeadMono a c :=
  ⟨Nat.le_trans h1.1 h2.1, fun j hj hd => h2.2 j (Nat.lt_of_lt_of_le hj h1.1) (h1.2 j hj hd)⟩

theorem deadMono_setRc (h : Heap D) (id : Nat) (f : Nat → Nat) : DeadMono h (setRc h id f) := by
  refine ⟨by rw [length_setRc]; exact Nat.le_refl _, fun j _ hd => ?_⟩
  have := isSome_setRc h id j f
  rw [hd] at this
  cases hx : cellAt (setRc h id f) j with
  | none => rfl
  | some _ => rw [hx] at this; cases this

theorem deadMono_retain (h : Heap D) (r : Ref D) : DeadMono h (retain h r) := by
  cases r with
  | inl d => exact DeadMono.refl h
  | ptr i => exact deadMono_setRc h i _

theorem deadMono_retainAll (ks : List (Ref D)) : ∀ h : Heap D, DeadMono h (retainAll h ks) := by
  induction ks with
  | nil => intro h; exact DeadMono.refl h
  | cons k ks ih =>
    intro h
    simp only [retainAll, List.foldl_cons] at ih ⊢
    exact (deadMono_retain h k).trans (ih _)

theorem deadMono_append (h x : Heap D) : DeadMono h (h ++ x) :=
  ⟨by simp, fun j hj hd => by rw [cellAt_append_left _ _ _ hj]; exact hd⟩

theorem deadMono_set_none (h : Heap D) (i : Nat) : DeadMono h (h.set i none) := by
  refine ⟨by simp, fun j hj hd => ?_⟩
  by_cases hi : i < h.length
  · rw [cellAt_set _ _ _ _ hi]; split <;> simp [hd]
  · rw [List.set_eq_of_length_le (Nat.le_of_not_lt hi)]; exact hd

theorem deadMono_releaseKid (hs : Heap D × List Nat) (k : Ref D) : DeadMono hs.1 (releaseKid hs k).1 := by
  cases k with
  | inl d => exact DeadMono.refl _
  | ptr kid =>
    simp only [releaseKid]
    split
    · show DeadMono hs.1 (setRc hs.1 kid (· - 1)); exact deadMono_setRc hs.1 kid _
    · show DeadMono hs.1 (setRc hs.1 kid (· - 1)); exact deadMono_setRc hs.1 kid _

theorem deadMono_releaseKids (ks : List (Ref D)) : ∀ hs : Heap D × List Nat, DeadMono hs.1 (ks.foldl releaseKid hs).1 := by
  induction ks with
  | nil => intro hs; exact DeadMono.refl _
  | cons k ks ih => intro hs; simp only [List.foldl_cons]; exact (deadMono_releaseKid hs k).trans (ih _)

theorem deadMono_releaseLoop : ∀ (f : Nat) (h : Heap D) (st : List Nat), DeadMono h (releaseLoop f h st)
  | 0, h, _ => DeadMono.refl h
  | _ + 1, h, [] => DeadMono.refl h
  | f + 1, h, id :: st => by
    simp only [releaseLoop]
    split
    · exact ((deadMono_releaseKids _ (h, st)).trans (deadMono_set_none _ id)).trans (deadMono_releaseLoop f _ _)
    · exact deadMono_releaseLoop f h st

theorem deadMono_release (h : Heap D) (r : Ref D) : DeadMono h (release h r) := by
  cases r with
  | inl d => exact DeadMono.refl h
  | ptr i =>
    simp only [release]
    split
    · exact (deadMono_setRc h i _).trans (deadMono_releaseLoop _ _ _)
    · exact deadMono_setRc h i _

theorem deadMono_clone (h : Heap D) (c : Cell D) : DeadMono h (clone h c).1 := by
  simp only [clone]
  exact (deadMono_retainAll c.kids h).trans (deadMono_append _ _)

theorem deadMono_makeMut (h : Heap D) (i : Nat) : DeadMono h (makeMut h i).1 := by
  unfold makeMut
  split
  · split
    · exact DeadMono.refl h
    · rename_i c _ _
      show DeadMono h (release (clone h c).1 (.ptr i))
      exact (deadMono_clone h c).trans (deadMono_release _ _)
  · exact DeadMono.refl h


/-! ### taking an exclusively owned cell out of the heap and putting it back -/

theorem takeOut_wf {h : Heap D} {X : List (Ref D)} {i : Nat} {c : Cell D} (hw : WF h (.ptr i :: X))
    (hc : cellAt h i = some c) (h1 : c.rc = 1) : WF (h.set i none) (c.kids ++ X) := by
  have hi := cellAt_lt hc
  refine ⟨fun j => ?_, ?_⟩
  · have hk := cnt_kidsOf_set j h i none hi
    rw [cellAt_some hc] at hk
    simp only [Option.getD_some, kidsOpt, cnt_nil] at hk
    have hwj := hw.count j
    rw [rcOf_set_none _ _ _ hi, cnt_append]
    simp only [cnt_cons_ptr] at hwj
    by_cases hji : j = i
    · subst hji
      have : rcOf h j = 1 := by unfold rcOf; rw [hc]; exact h1
      simp at hwj ⊢; omega
    · have : ¬ i = j := fun e => hji e.symm
      simp [hji, this] at hwj ⊢; omega
  · intro j c' hc'
    rw [cellAt_set _ _ _ _ hi] at hc'
    by_cases hji : j = i
    · simp [hji] at hc'
    · simp [hji] at hc'; exact hw.pos j c' hc'

theorem putBack_wf {h : Heap D} {X ks : List (Ref D)} {i : Nat} (d : D) (hw : WF h (ks ++ X))
    (hd : cellAt h i = none) (hi : i < h.length) :
    WF (h.set i (some { rc := 1, kids := ks, data := d })) (.ptr i :: X) := by
  have hslot : kidsOpt (h[i]?.getD none) = [] := by
    unfold cellAt at hd
    cases hx : h[i]? with
    | none => rfl
    | some o =>
      cases o with
      | none => rfl
      | some c => rw [hx] at hd; cases hd
  refine ⟨fun j => ?_, ?_⟩
  · have hk := cnt_kidsOf_set j h i (some { rc := 1, kids := ks, data := d }) hi
    rw [hslot] at hk
    simp only [kidsOpt, cnt_nil] at hk
    have hwj := hw.count j
    rw [cnt_append] at hwj
    rw [rcOf_set _ _ _ _ hi]
    simp only [cnt_cons_ptr]
    by_cases hji : j = i
    · subst hji
      have : rcOf h j = 0 := by unfold rcOf; rw [hd]
      simp; omega
    · have : ¬ i = j := fun e => hji e.symm
      simp [hji, this]; omega
  · intro j c' hc'
    rw [cellAt_set _ _ _ _ hi] at hc'
    by_cases hji : j = i
    · simp [hji] at hc'; cases hc'; simp
    · simp [hji] at hc'; exact hw.pos j c' hc'

theorem wf_inl_cons {h : Heap D} {X : List (Ref D)} (d : D) : WF h (.inl d :: X) ↔ WF h X :=
  ⟨fun hw => ⟨fun id => by simpa [cnt] using hw.count id, hw.pos⟩,
   fun hw => ⟨fun id => by simpa [cnt] using hw.count id, hw.pos⟩⟩

mutual
  /-- The ownership skeleton of `ts_subtree_edit` keeps the counting invariant: the caller hands
  in one owned reference and gets one owned reference back. Freed ids are never reused. -/
  theorem editRef_ok : ∀ (spec : EditSpec D) (h : Heap D) (r : Ref D) (X : List (Ref D)), WF h (r :: X) →
      WF (editRef h r spec).1 ((editRef h r spec).2 :: X) ∧ DeadMono h (editRef h r spec).1
    | .skip, h, r, X, hw => by
      unfold editRef
      exact ⟨hw, DeadMono.refl h⟩
    | .visit nd promote specs, h, .inl d, X, hw => by
      unfold editRef
      by_cases hp : promote = true
      · simp only [hp, if_true]
        have := alloc_wf (h := h) (owners := X) [] nd (by simpa using (wf_inl_cons d).mp hw)
        exact ⟨this, deadMono_append _ _⟩
      · simp only [hp]
        exact ⟨(wf_inl_cons nd).mpr ((wf_inl_cons d).mp hw), DeadMono.refl h⟩
    | .visit nd promote specs, h, .ptr id0, X, hw => by
      obtain ⟨hw1, c, c', hc, hc', hrc, hkids, hdata⟩ := makeMut_wf hw
      have hdm1 := deadMono_makeMut h id0
      unfold editRef
      simp only [hc']
      have hi := cellAt_lt hc'
      have hw2 := takeOut_wf hw1 hc' hrc
      have ih := editKids_ok specs ((makeMut h id0).1.set (makeMut h id0).2 none) c'.kids X hw2
      have hdead2 : cellAt ((makeMut h id0).1.set (makeMut h id0).2 none) (makeMut h id0).2 = none := by
        rw [cellAt_set _ _ _ _ hi]; simp
      have hi2 : (makeMut h id0).2 < ((makeMut h id0).1.set (makeMut h id0).2 none).length := by simpa using hi
      have hdead3 := ih.2.2 _ hi2 hdead2
      have hi3 := Nat.lt_of_lt_of_le hi2 ih.2.1
      have hfin := putBack_wf nd ih.1 hdead3 hi3
      rw [hrc]
      refine ⟨hfin, ?_⟩
      refine ⟨by simp; exact Nat.le_trans hdm1.1 (by simpa using ih.2.1), fun j hj hd => ?_⟩
      have hd1 := hdm1.2 j hj hd
      have hj1 := Nat.lt_of_lt_of_le hj hdm1.1
      have hne : j ≠ (makeMut h id0).2 := by
        intro e; rw [e, hc'] at hd1; cases hd1
      have hd2 : cellAt ((makeMut h id0).1.set (makeMut h id0).2 none) j = none := by
        rw [cellAt_set _ _ _ _ hi]; simp [hne, hd1]
      have hd3 := ih.2.2 j (by simpa using hj1) hd2
      rw [cellAt_set _ _ _ _ hi3]; simp [hne, hd3]
  theorem editKids_ok : ∀ (specs : List (EditSpec D)) (h : Heap D) (ks : List (Ref D)) (X : List (Ref D)),
      WF h (ks ++ X) → WF (editKids h ks specs).1 ((editKids h ks specs).2 ++ X) ∧ DeadMono h (editKids h ks specs).1
    | _, h, [], X, hw => by
      unfold editKids
      exact ⟨hw, DeadMono.refl h⟩
    | [], h, k :: ks, X, hw => by
      unfold editKids
      exact ⟨hw, DeadMono.refl h⟩
    | s :: ss, h, k :: ks, X, hw => by
      unfold editKids
      have h1 := editRef_ok s h k (ks ++ X) (by simpa using hw)
      have hw1' : WF (editRef h k s).1 (ks ++ ((editRef h k s).2 :: X)) :=
        wf_perm h1.1 (fun id => by
          rw [cnt_cons, cnt_append, cnt_append, cnt_cons id (editRef h k s).2 X]; omega)
      have h2 := editKids_ok ss (editRef h k s).1 ks ((editRef h k s).2 :: X) hw1'
      refine ⟨wf_perm h2.1 (fun id => ?_), h1.2.trans h2.2⟩
      simp only [List.cons_append, cnt_append]
      rw [cnt_cons id (editRef h k s).2 X, cnt_cons id (editRef h k s).2 (_ ++ X), cnt_append]
      omega
end


/-! ### the release cascade (`ts_subtree_release` with its explicit stack) -/

theorem liveCount_set_some {h : Heap D} {i : Nat} {c : Cell D} (c' : Cell D) (hc : cellAt h i = some c) :
    liveCount (h.set i (some c')) = liveCount h := by
  have hsome := cellAt_some hc
  clear hc
  induction h generalizing i with
  | nil => simp at hsome
  | cons x h ih =>
    cases i with
    | zero => simp at hsome; subst hsome; simp [liveCount, List.filter]
    | succ i =>
      have := ih (i := i) (by simpa using hsome)
      simp only [liveCount] at this ⊢
      cases x <;> simp [List.filter, this]

theorem liveCount_set_none {h : Heap D} {i : Nat} {c : Cell D} (hc : cellAt h i = some c) :
    liveCount (h.set i none) + 1 = liveCount h := by
  have hsome := cellAt_some hc
  clear hc
  induction h generalizing i with
  | nil => simp at hsome
  | cons x h ih =>
    cases i with
    | zero => simp at hsome; subst hsome; simp [liveCount, List.filter]
    | succ i =>
      have := ih (i := i) (by simpa using hsome)
      simp only [liveCount] at this ⊢
      cases x <;> simp [List.filter] <;> omega

theorem liveCount_setRc (h : Heap D) (i : Nat) (f : Nat → Nat) : liveCount (setRc h i f) = liveCount h := by
  cases hc : cellAt h i with
  | none => unfold setRc; rw [hc]
  | some c => rw [setRc_of_cell hc]; exact liveCount_set_some _ hc

/-- Invariant of the loop: counts are exact; the cells with count 0 are exactly those waiting on
the stack (each once). -/
structure WFS (h : Heap D) (owners : List (Ref D)) (st : List Nat) : Prop where
  count : ∀ a, rcOf h a = cnt a owners + cnt a (kidsOf h)
  pos : ∀ a c, cellAt h a = some c → 1 ≤ c.rc ∨ a ∈ st
  stack : ∀ a, a ∈ st → ∃ c, cellAt h a = some c ∧ c.rc = 0
  nodup : st.Nodup

/-- While the children of the popped cell `i` are being released: `done` are the children already
handled (their counts are decremented although cell `i` still physically links to them). -/
structure FoldInv (h : Heap D) (owners : List (Ref D)) (st : List Nat) (i : Nat) (ci : Cell D)
    (done : List (Ref D)) : Prop where
  count : ∀ a, rcOf h a + cnt a done = cnt a owners + cnt a (kidsOf h)
  pos : ∀ a c, cellAt h a = some c → 1 ≤ c.rc ∨ a ∈ st ∨ a = i
  stack : ∀ a, a ∈ st → ∃ c, cellAt h a = some c ∧ c.rc = 0
  nodup : st.Nodup
  notin : i ∉ st
  self : cellAt h i = some ci
  selfrc : ci.rc = 0

theorem foldInv_step {h : Heap D} {owners : List (Ref D)} {st : List Nat} {i : Nat} {ci : Cell D}
    {done todo : List (Ref D)} (k : Ref D) (hk : ci.kids = done ++ k :: todo)
    (inv : FoldInv h owners st i ci done) :
    FoldInv (releaseKid (h, st) k).1 owners (releaseKid (h, st) k).2 i ci (done ++ [k]) := by
  cases k with
  | inl d =>
    show FoldInv h owners st i ci (done ++ [Ref.inl d])
    exact { inv with count := fun a => by have := inv.count a; rw [cnt_append]; simp only [cnt_cons_inl, cnt_nil]; omega }
  | ptr kid =>
    -- the child still has at least the link from cell `i` as an owner
    have hle := cnt_kids_le kid h i ci inv.self
    have hcnt : cnt kid ci.kids = cnt kid done + (1 + cnt kid todo) := by
      rw [hk, cnt_append, cnt_cons_ptr]; simp
    have hrc1 : 1 ≤ rcOf h kid := by have := inv.count kid; omega
    obtain ⟨ck, hck⟩ : ∃ c, cellAt h kid = some c := by
      unfold rcOf at hrc1
      cases hx : cellAt h kid with
      | some c => exact ⟨c, rfl⟩
      | none => rw [hx] at hrc1; simp at hrc1
    have hckrc : ck.rc = rcOf h kid := by unfold rcOf; rw [hck]
    have hne : kid ≠ i := by
      intro e; subst e
      rw [inv.self] at hck; cases hck
      rw [inv.selfrc] at hckrc; omega
    have hcount : ∀ a, rcOf (decr h kid) a + cnt a (done ++ [Ref.ptr kid]) = cnt a owners + cnt a (kidsOf (decr h kid)) := by
      intro a
      have := inv.count a
      simp only [decr, rcOf_setRc, kidsOf_setRc, cnt_append, cnt_cons_ptr, cnt_nil, hck, Option.isSome_some, and_true]
      by_cases ha : a = kid
      · subst ha; simp; omega
      · have : ¬ kid = a := fun e => ha e.symm
        simp [ha, this]; omega
    have hself : cellAt (decr h kid) i = some ci := by
      simp only [decr]; rw [cellAt_setRc_ne _ _ _ _ (Ne.symm hne)]; exact inv.self
    have hcell : ∀ a c, cellAt (decr h kid) a = some c →
        (a = kid ∧ c.rc = ck.rc - 1) ∨ (a ≠ kid ∧ cellAt h a = some c) := by
      intro a c hc
      by_cases ha : a = kid
      · subst ha
        simp only [decr] at hc
        rw [cellAt_setRc_self _ _ _ hck] at hc
        cases hc; exact Or.inl ⟨rfl, rfl⟩
      · simp only [decr] at hc
        rw [cellAt_setRc_ne _ _ _ _ ha] at hc
        exact Or.inr ⟨ha, hc⟩
    have hkid' : cellAt (decr h kid) kid = some { ck with rc := ck.rc - 1 } := by
      simp only [decr]; exact cellAt_setRc_self _ _ _ hck
    have hnotst : kid ∉ st := by
      intro hm
      obtain ⟨c, hc, hz⟩ := inv.stack kid hm
      rw [hck] at hc; cases hc; omega
    simp only [releaseKid]
    by_cases hz : rcOf (decr h kid) kid = 0
    · simp only [hz, if_true]
      have hck0 : ck.rc - 1 = 0 := by
        unfold rcOf at hz; rw [hkid'] at hz; exact hz
      refine ⟨hcount, ?_, ?_, ?_, ?_, hself, inv.selfrc⟩
      · intro a c hc
        rcases hcell a c hc with ⟨ha, _⟩ | ⟨_, hc'⟩
        · exact Or.inr (Or.inl (by rw [ha]; exact List.mem_cons_self))
        · rcases inv.pos a c hc' with h1 | h1 | h1
          · exact Or.inl h1
          · exact Or.inr (Or.inl (List.mem_cons_of_mem _ h1))
          · exact Or.inr (Or.inr h1)
      · intro a ha
        rcases List.mem_cons.mp ha with h1 | h1
        · subst h1; exact ⟨_, hkid', hck0⟩
        · obtain ⟨c, hc, hz'⟩ := inv.stack a h1
          have hane : a ≠ kid := fun e => hnotst (e ▸ h1)
          exact ⟨c, by simp only [decr]; rw [cellAt_setRc_ne _ _ _ _ hane]; exact hc, hz'⟩
      · exact List.nodup_cons.mpr ⟨hnotst, inv.nodup⟩
      · intro hm
        rcases List.mem_cons.mp hm with h1 | h1
        · exact hne h1.symm
        · exact inv.notin h1
    · simp only [hz, if_false]
      have hck1 : 1 ≤ ck.rc - 1 := by
        unfold rcOf at hz; rw [hkid'] at hz; simp at hz; omega
      refine ⟨hcount, ?_, ?_, inv.nodup, inv.notin, hself, inv.selfrc⟩
      · intro a c hc
        rcases hcell a c hc with ⟨_, hrc⟩ | ⟨_, hc'⟩
        · exact Or.inl (by omega)
        · exact inv.pos a c hc'
      · intro a ha
        obtain ⟨c, hc, hz'⟩ := inv.stack a ha
        have hane : a ≠ kid := fun e => hnotst (e ▸ ha)
        exact ⟨c, by simp only [decr]; rw [cellAt_setRc_ne _ _ _ _ hane]; exact hc, hz'⟩

theorem foldInv_all {owners : List (Ref D)} {i : Nat} {ci : Cell D} :
    ∀ (todo done : List (Ref D)) (h : Heap D) (st : List Nat), ci.kids = done ++ todo →
      FoldInv h owners st i ci done →
      FoldInv (todo.foldl releaseKid (h, st)).1 owners (todo.foldl releaseKid (h, st)).2 i ci ci.kids := by
  intro todo
  induction todo with
  | nil => intro done h st hk inv; simp at hk; rw [hk]; exact inv
  | cons k todo ih =>
    intro done h st hk inv
    simp only [List.foldl_cons]
    have := foldInv_step k hk inv
    exact ih (done ++ [k]) _ _ (by simp [hk]) this

theorem liveCount_releaseKids (ks : List (Ref D)) : ∀ hs : Heap D × List Nat,
    liveCount (ks.foldl releaseKid hs).1 = liveCount hs.1 := by
  induction ks with
  | nil => intro hs; rfl
  | cons k ks ih =>
    intro hs
    simp only [List.foldl_cons]
    rw [ih]
    cases k with
    | inl d => rfl
    | ptr kid =>
      simp only [releaseKid]
      split
      · show liveCount (setRc hs.1 kid (· - 1)) = _; exact liveCount_setRc _ _ _
      · show liveCount (setRc hs.1 kid (· - 1)) = _; exact liveCount_setRc _ _ _

theorem wfs_nil {h : Heap D} {owners : List (Ref D)} (w : WFS h owners []) : WF h owners :=
  ⟨w.count, fun a c hc => by rcases w.pos a c hc with h1 | h1; exact h1; cases h1⟩

/-- The loop frees exactly the cells whose count reached zero, transitively, and re-establishes
the invariant; `fuel ≥` number of live cells suffices (each iteration frees one). -/
theorem releaseLoop_wf {owners : List (Ref D)} : ∀ (f : Nat) (h : Heap D) (st : List Nat),
    WFS h owners st → liveCount h ≤ f → WF (releaseLoop f h st) owners
  | 0, h, st, w, hf => by
    have : st = [] := by
      cases st with
      | nil => rfl
      | cons a st =>
        obtain ⟨c, hc, _⟩ := w.stack a List.mem_cons_self
        have := liveCount_set_none hc
        omega
    subst this
    simp only [releaseLoop]
    exact wfs_nil w
  | f + 1, h, [], w, _ => by
    simp only [releaseLoop]
    exact wfs_nil w
  | f + 1, h, i :: st, w, hf => by
    obtain ⟨ci, hci, hz⟩ := w.stack i List.mem_cons_self
    simp only [releaseLoop, hci]
    have hnd := List.nodup_cons.mp w.nodup
    have inv0 : FoldInv h owners st i ci [] :=
      { count := fun a => by simpa using w.count a
        pos := fun a c hc => by
          rcases w.pos a c hc with h1 | h1
          · exact Or.inl h1
          · rcases List.mem_cons.mp h1 with h2 | h2
            · exact Or.inr (Or.inr h2)
            · exact Or.inr (Or.inl h2)
        stack := fun a ha => w.stack a (List.mem_cons_of_mem _ ha)
        nodup := hnd.2, notin := hnd.1, self := hci, selfrc := hz }
    have inv := foldInv_all ci.kids [] h st (by simp) inv0
    have hi := cellAt_lt inv.self
    have hlive := liveCount_releaseKids ci.kids (h, st)
    have hl2 := liveCount_set_none inv.self
    apply releaseLoop_wf f
    · refine ⟨fun a => ?_, ?_, ?_, inv.nodup⟩
      · have hk := cnt_kidsOf_set a (ci.kids.foldl releaseKid (h, st)).1 i none hi
        rw [cellAt_some inv.self] at hk
        simp only [Option.getD_some, kidsOpt, cnt_nil] at hk
        have hc := inv.count a
        rw [rcOf_set_none _ _ _ hi]
        by_cases hai : a = i
        · subst hai
          have : rcOf (ci.kids.foldl releaseKid (h, st)).1 a = 0 := by unfold rcOf; rw [inv.self]; exact inv.selfrc
          have hle := cnt_kids_le a _ a ci inv.self
          simp; omega
        · simp [hai]; omega
      · intro a c hc
        rw [cellAt_set _ _ _ _ hi] at hc
        by_cases hai : a = i
        · simp [hai] at hc
        · simp [hai] at hc
          rcases inv.pos a c hc with h1 | h1 | h1
          · exact Or.inl h1
          · exact Or.inr h1
          · exact absurd h1 hai
      · intro a ha
        obtain ⟨c, hc, hz'⟩ := inv.stack a ha
        have hai : a ≠ i := fun e => inv.notin (e ▸ ha)
        exact ⟨c, by rw [cellAt_set _ _ _ _ hi]; simp [hai, hc], hz'⟩
    · simp only at hlive; omega

theorem liveCount_le_length (h : Heap D) : liveCount h ≤ h.length := by
  unfold liveCount; exact List.length_filter_le _ _

/-- `ts_subtree_release`: dropping one owned reference re-establishes the invariant for the rest. -/
theorem release_wf {h : Heap D} {X : List (Ref D)} (r : Ref D) (hw : WF h (r :: X)) : WF (release h r) X := by
  cases r with
  | inl d => exact (wf_inl_cons d).mp hw
  | ptr i =>
    obtain ⟨c, hc⟩ := hw.live (id := i) (by simp [cnt]; omega)
    have hpos := hw.pos i c hc
    have hrc : rcOf h i = c.rc := by unfold rcOf; rw [hc]
    simp only [release]
    by_cases h2 : 2 ≤ c.rc
    · have := decr_wf hw (by omega)
      have hnz : rcOf (decr h i) i ≠ 0 := by
        simp only [decr, rcOf_setRc, hc, Option.isSome_some, and_true, if_true]; omega
      simp [hnz]; exact this
    · have h1 : c.rc = 1 := by omega
      have hcell : cellAt (decr h i) i = some { c with rc := 0 } := by
        simp only [decr]; rw [cellAt_setRc_self _ _ _ hc]; simp [h1]
      have hz : rcOf (decr h i) i = 0 := by unfold rcOf; rw [hcell]
      simp only [hz, if_true]
      apply releaseLoop_wf
      · refine ⟨fun a => ?_, ?_, ?_, by simp⟩
        · have := hw.count a
          simp only [cnt_cons_ptr] at this
          simp only [decr, rcOf_setRc, kidsOf_setRc, hc, Option.isSome_some, and_true]
          by_cases hai : a = i
          · subst hai; simp at this ⊢; omega
          · have : ¬ i = a := fun e => hai e.symm
            simp [hai, this] at *; omega
        · intro a c' hc'
          by_cases hai : a = i
          · exact Or.inr (by simp [hai])
          · simp only [decr] at hc'
            rw [cellAt_setRc_ne _ _ _ _ hai] at hc'
            exact Or.inl (hw.pos a c' hc')
        · intro a ha
          simp at ha; subst ha
          exact ⟨_, hcell, rfl⟩
      · have := liveCount_le_length (decr h i)
        have hl : (decr h i).length = h.length := length_setRc _ _ _
        omega


/-! ### what a reference observes, and when heap updates cannot be seen through it -/

/-- Every live cell of `h` is still there in `h'` with the same children and payload
(reference counts may differ, new cells may have appeared). -/
def Ext (h h' : Heap D) : Prop :=
  ∀ j c, cellAt h j = some c → ∃ c', cellAt h' j = some c' ∧ c'.kids = c.kids ∧ c'.data = c.data

theorem Ext.refl (h : Heap D) : Ext h h := fun _ c hc => ⟨c, hc, rfl, rfl⟩

theorem Ext.trans {a b c : Heap D} (h1 : Ext a b) (h2 : Ext b c) : Ext a c := by
  intro j x hx
  obtain ⟨y, hy, hk, hd⟩ := h1 j x hx
  obtain ⟨z, hz, hk', hd'⟩ := h2 j y hy
  exact ⟨z, hz, hk'.trans hk, hd'.trans hd⟩

theorem ext_setRc (h : Heap D) (i : Nat) (f : Nat → Nat) : Ext h (setRc h i f) := by
  intro j c hc
  by_cases hji : j = i
  · subst hji; exact ⟨_, cellAt_setRc_self _ _ _ hc, rfl, rfl⟩
  · exact ⟨c, by rw [cellAt_setRc_ne _ _ _ _ hji]; exact hc, rfl, rfl⟩

theorem ext_retain (h : Heap D) (r : Ref D) : Ext h (retain h r) := by
  cases r with
  | inl d => exact Ext.refl h
  | ptr i => exact ext_setRc h i _

theorem ext_retainAll (ks : List (Ref D)) : ∀ h : Heap D, Ext h (retainAll h ks) := by
  induction ks with
  | nil => intro h; exact Ext.refl h
  | cons k ks ih => intro h; simp only [retainAll, List.foldl_cons] at ih ⊢; exact (ext_retain h k).trans (ih _)

theorem ext_append (h x : Heap D) : Ext h (h ++ x) := by
  intro j c hc
  exact ⟨c, by rw [cellAt_append_left _ _ _ (cellAt_lt hc)]; exact hc, rfl, rfl⟩

theorem ext_releaseKids (ks : List (Ref D)) : ∀ hs : Heap D × List Nat, Ext hs.1 (ks.foldl releaseKid hs).1 := by
  induction ks with
  | nil => intro hs; exact Ext.refl _
  | cons k ks ih =>
    intro hs
    simp only [List.foldl_cons]
    refine Ext.trans ?_ (ih _)
    cases k with
    | inl d => exact Ext.refl _
    | ptr kid =>
      simp only [releaseKid]
      split
      · show Ext hs.1 (setRc hs.1 kid (· - 1)); exact ext_setRc _ _ _
      · show Ext hs.1 (setRc hs.1 kid (· - 1)); exact ext_setRc _ _ _

mutual
  /-- Observations survive any heap change that keeps the visited cells' children and payload. -/
  theorem unfold_ext {h h' : Heap D} (he : Ext h h') : ∀ (f : Nat) (r : Ref D) (t : OTree D),
      unfold f h r = some t → unfold f h' r = some t
    | _, .inl d, t, hu => by unfold unfold at hu ⊢; exact hu
    | 0, .ptr i, t, hu => by unfold unfold at hu; cases hu
    | f + 1, .ptr i, t, hu => by
      unfold unfold at hu ⊢
      cases hc : cellAt h i with
      | none => rw [hc] at hu; cases hu
      | some c =>
        rw [hc] at hu
        obtain ⟨c', hc', hk, hd⟩ := he i c hc
        rw [hc']
        simp only [Option.map_eq_some_iff] at hu ⊢
        obtain ⟨ts, hts, ht⟩ := hu
        exact ⟨ts, by rw [hk]; exact unfoldL_ext he f c.kids ts hts, by rw [hd]; exact ht⟩
  theorem unfoldL_ext {h h' : Heap D} (he : Ext h h') : ∀ (f : Nat) (ks : List (Ref D)) (ts : List (OTree D)),
      unfoldL f h ks = some ts → unfoldL f h' ks = some ts
    | _, [], ts, hu => by unfold unfoldL at hu ⊢; exact hu
    | f, k :: ks, ts, hu => by
      unfold unfoldL at hu ⊢
      cases h1 : unfold f h k with
      | none => rw [h1] at hu; cases hu
      | some t =>
        cases h2 : unfoldL f h ks with
        | none => rw [h1, h2] at hu; cases hu
        | some ts' =>
          rw [h1, h2] at hu
          rw [unfold_ext he f k t h1, unfoldL_ext he f ks ts' h2]
          exact hu
end

theorem cnt_zero_not_mem {i : Nat} {rs : List (Ref D)} (h : cnt i rs = 0) : Ref.ptr i ∉ rs := by
  intro hm; have := cnt_pos_of_mem hm; omega

theorem cnt_cons_zero {i : Nat} {r : Ref D} {rs : List (Ref D)} (h : cnt i (r :: rs) = 0) :
    r ≠ .ptr i ∧ cnt i rs = 0 := by
  rw [cnt_cons] at h
  refine ⟨?_, by omega⟩
  intro e; subst e; simp [cnt] at h

mutual
  /-- A slot that no child link points to (and that is not the reference we start from) is never
  visited: overwriting it cannot be observed. -/
  theorem unfold_set_unref {h : Heap D} {i : Nat} (o : Option (Cell D)) (hi : i < h.length)
      (hz : cnt i (kidsOf h) = 0) : ∀ (f : Nat) (r : Ref D) (t : OTree D), r ≠ .ptr i →
      unfold f h r = some t → unfold f (h.set i o) r = some t
    | _, .inl d, t, _, hu => by unfold unfold at hu ⊢; exact hu
    | 0, .ptr j, t, _, hu => by unfold unfold at hu; cases hu
    | f + 1, .ptr j, t, hne, hu => by
      have hji : j ≠ i := fun e => hne (by rw [e])
      unfold unfold at hu ⊢
      rw [cellAt_set _ _ _ _ hi]
      simp only [hji, if_false]
      cases hc : cellAt h j with
      | none => rw [hc] at hu; cases hu
      | some c =>
        rw [hc] at hu
        simp only [Option.map_eq_some_iff] at hu ⊢
        obtain ⟨ts, hts, ht⟩ := hu
        have hck : cnt i c.kids = 0 := by have := cnt_kids_le i h j c hc; omega
        exact ⟨ts, unfoldL_set_unref o hi hz f c.kids ts hck hts, ht⟩
  theorem unfoldL_set_unref {h : Heap D} {i : Nat} (o : Option (Cell D)) (hi : i < h.length)
      (hz : cnt i (kidsOf h) = 0) : ∀ (f : Nat) (ks : List (Ref D)) (ts : List (OTree D)), cnt i ks = 0 →
      unfoldL f h ks = some ts → unfoldL f (h.set i o) ks = some ts
    | _, [], ts, _, hu => by unfold unfoldL at hu ⊢; exact hu
    | f, k :: ks, ts, hk, hu => by
      have hk' := cnt_cons_zero hk
      unfold unfoldL at hu ⊢
      cases h1 : unfold f h k with
      | none => rw [h1] at hu; cases hu
      | some t =>
        cases h2 : unfoldL f h ks with
        | none => rw [h1, h2] at hu; cases hu
        | some ts' =>
          rw [h1, h2] at hu
          rw [unfold_set_unref o hi hz f k t hk'.1 h1, unfoldL_set_unref o hi hz f ks ts' hk'.2 h2]
          exact hu
end


/-! ### isolation: what other owners observe is untouched by an edit -/

/-- For a shared cell `make_mut` is: clone, then one plain decrement of the original. -/
theorem makeMut_shared_eq {h : Heap D} {X : List (Ref D)} {i : Nat} {c : Cell D} (hw : WF h (.ptr i :: X))
    (hc : cellAt h i = some c) (h1 : c.rc ≠ 1) : makeMut h i = (decr (clone h c).1 i, (clone h c).2) := by
  have hpos := hw.pos i c hc
  have hlen : (retainAll h c.kids).length = h.length := length_retainAll _ _
  have hi_lt : i < (retainAll h c.kids).length := by rw [hlen]; exact cellAt_lt hc
  have hrc2 : 2 ≤ rcOf (clone h c).1 i := by
    have : rcOf (clone h c).1 i = rcOf (retainAll h c.kids) i := by
      unfold rcOf clone; simp only; rw [cellAt_append_left _ _ _ hi_lt]
    rw [this]
    have := rcOf_retainAll_ge c.kids h i
    have hr : rcOf h i = c.rc := by unfold rcOf; rw [hc]
    omega
  have hrel : release (clone h c).1 (.ptr i) = decr (clone h c).1 i := by
    unfold release
    have : rcOf (decr (clone h c).1 i) i ≠ 0 := by
      have hlive : (cellAt (clone h c).1 i).isSome := by
        unfold rcOf at hrc2
        cases hx : cellAt (clone h c).1 i with
        | some _ => rfl
        | none => rw [hx] at hrc2; simp at hrc2
      simp only [decr, rcOf_setRc, hlive, and_true, if_true]
      omega
    simp [this]
  unfold makeMut
  simp only [hc, h1, if_false, hrel]

theorem makeMut_ext {h : Heap D} {X : List (Ref D)} {i : Nat} (hw : WF h (.ptr i :: X)) : Ext h (makeMut h i).1 := by
  obtain ⟨c, hc⟩ := hw.live (id := i) (by simp [cnt]; omega)
  by_cases h1 : c.rc = 1
  · unfold makeMut; simp only [hc, h1, if_true]; exact Ext.refl h
  · rw [makeMut_shared_eq hw hc h1]
    simp only [clone]
    exact ((ext_retainAll c.kids h).trans (ext_append _ _)).trans (ext_setRc _ _ _)

mutual
  /-- `edit_frame`: whatever the other owners `X` (other handles, siblings being edited later)
  could observe before an edit of `r`, they observe unchanged afterwards. -/
  theorem editRef_frame : ∀ (spec : EditSpec D) (h : Heap D) (r : Ref D) (X : List (Ref D)), WF h (r :: X) →
      ∀ x, x ∈ X → ∀ (f : Nat) (t : OTree D), unfold f h x = some t → unfold f (editRef h r spec).1 x = some t
    | .skip, h, r, X, _, x, _, f, t, hu => by unfold editRef; exact hu
    | .visit nd promote specs, h, .inl d, X, _, x, _, f, t, hu => by
      unfold editRef
      by_cases hp : promote = true
      · simp only [hp, if_true]; exact unfold_ext (ext_append _ _) f x t hu
      · simp only [hp]; exact hu
    | .visit nd promote specs, h, .ptr id0, X, hw, x, hx, f, t, hu => by
      obtain ⟨hw1, c, c', hc, hc', hrc, hkids, hdata⟩ := makeMut_wf hw
      have hext1 := makeMut_ext hw
      have hu1 := unfold_ext hext1 f x t hu
      have hi := cellAt_lt hc'
      -- the cell to be rewritten is referenced by nobody else
      have hrc1 : rcOf (makeMut h id0).1 (makeMut h id0).2 = 1 := by unfold rcOf; rw [hc']; exact hrc
      have hexcl := hw1.count (makeMut h id0).2
      simp only [cnt_cons_ptr, if_true, hrc1] at hexcl
      have hxne : x ≠ .ptr (makeMut h id0).2 := by
        intro e; subst e
        have := cnt_pos_of_mem hx; omega
      have hu2 := unfold_set_unref none hi (by omega) f x t hxne hu1
      have hw2 := takeOut_wf hw1 hc' hrc
      have hu3 := editKids_frame specs _ c'.kids X hw2 x hx f t hu2
      have ih := editKids_ok specs ((makeMut h id0).1.set (makeMut h id0).2 none) c'.kids X hw2
      have hdead2 : cellAt ((makeMut h id0).1.set (makeMut h id0).2 none) (makeMut h id0).2 = none := by
        rw [cellAt_set _ _ _ _ hi]; simp
      have hi2 : (makeMut h id0).2 < ((makeMut h id0).1.set (makeMut h id0).2 none).length := by simpa using hi
      have hdead3 := ih.2.2 _ hi2 hdead2
      have hi3 := Nat.lt_of_lt_of_le hi2 ih.2.1
      have hz3 := ih.1.count (makeMut h id0).2
      have hr0 : rcOf (editKids ((makeMut h id0).1.set (makeMut h id0).2 none) c'.kids specs).1 (makeMut h id0).2 = 0 := by
        unfold rcOf; rw [hdead3]
      rw [hr0, cnt_append] at hz3
      unfold editRef
      simp only [hc']
      exact unfold_set_unref _ hi3 (by omega) f x t hxne hu3
  theorem editKids_frame : ∀ (specs : List (EditSpec D)) (h : Heap D) (ks : List (Ref D)) (X : List (Ref D)),
      WF h (ks ++ X) → ∀ x, x ∈ X → ∀ (f : Nat) (t : OTree D), unfold f h x = some t →
        unfold f (editKids h ks specs).1 x = some t
    | _, h, [], X, _, x, _, f, t, hu => by unfold editKids; exact hu
    | [], h, k :: ks, X, _, x, _, f, t, hu => by unfold editKids; exact hu
    | s :: ss, h, k :: ks, X, hw, x, hx, f, t, hu => by
      unfold editKids
      have hw0 : WF h (k :: (ks ++ X)) := by simpa using hw
      have h1 := editRef_ok s h k (ks ++ X) hw0
      have hu1 := editRef_frame s h k (ks ++ X) hw0 x (List.mem_append_right _ hx) f t hu
      have hw1' : WF (editRef h k s).1 (ks ++ ((editRef h k s).2 :: X)) :=
        wf_perm h1.1 (fun id => by
          rw [cnt_cons, cnt_append, cnt_append, cnt_cons id (editRef h k s).2 X]; omega)
      exact editKids_frame ss (editRef h k s).1 ks ((editRef h k s).2 :: X) hw1' x (List.mem_cons_of_mem _ hx) f t hu1
end


/-! ### isolation: what the remaining owners observe is untouched by a release -/

/-- One iteration of the release loop: pop `i`, release its children, free it. -/
theorem pop_step {h : Heap D} {owners : List (Ref D)} {i : Nat} {st : List Nat} (w : WFS h owners (i :: st)) :
    ∃ ci, cellAt h i = some ci ∧
      WFS ((ci.kids.foldl releaseKid (h, st)).1.set i none) owners (ci.kids.foldl releaseKid (h, st)).2 ∧
      liveCount ((ci.kids.foldl releaseKid (h, st)).1.set i none) + 1 = liveCount h ∧
      (∀ x, x ∈ owners → ∀ (f : Nat) (t : OTree D), unfold f h x = some t →
        unfold f ((ci.kids.foldl releaseKid (h, st)).1.set i none) x = some t) := by
  obtain ⟨ci, hci, hz⟩ := w.stack i List.mem_cons_self
  refine ⟨ci, hci, ?_⟩
  have hnd := List.nodup_cons.mp w.nodup
  have inv0 : FoldInv h owners st i ci [] :=
    { count := fun a => by simpa using w.count a
      pos := fun a c hc => by
        rcases w.pos a c hc with h1 | h1
        · exact Or.inl h1
        · rcases List.mem_cons.mp h1 with h2 | h2
          · exact Or.inr (Or.inr h2)
          · exact Or.inr (Or.inl h2)
      stack := fun a ha => w.stack a (List.mem_cons_of_mem _ ha)
      nodup := hnd.2, notin := hnd.1, self := hci, selfrc := hz }
  have inv := foldInv_all ci.kids [] h st (by simp) inv0
  have hi := cellAt_lt inv.self
  have hlive := liveCount_releaseKids ci.kids (h, st)
  have hl2 := liveCount_set_none inv.self
  have hci0 := inv.count i
  have hri : rcOf (ci.kids.foldl releaseKid (h, st)).1 i = 0 := by unfold rcOf; rw [inv.self]; exact inv.selfrc
  have hle := cnt_kids_le i _ i ci inv.self
  -- nobody refers to the cell being freed
  have hw0 := w.count i
  have hr0 : rcOf h i = 0 := by unfold rcOf; rw [hci]; exact hz
  have hkz : cnt i ci.kids = 0 := by have := cnt_kids_le i h i ci hci; omega
  refine ⟨?_, by simp only at hlive; omega, ?_⟩
  · refine ⟨fun a => ?_, ?_, ?_, inv.nodup⟩
    · have hk := cnt_kidsOf_set a (ci.kids.foldl releaseKid (h, st)).1 i none hi
      rw [cellAt_some inv.self] at hk
      simp only [Option.getD_some, kidsOpt, cnt_nil] at hk
      have hc := inv.count a
      rw [rcOf_set_none _ _ _ hi]
      by_cases hai : a = i
      · subst hai; simp; omega
      · simp [hai]; omega
    · intro a c hc
      rw [cellAt_set _ _ _ _ hi] at hc
      by_cases hai : a = i
      · simp [hai] at hc
      · simp [hai] at hc
        rcases inv.pos a c hc with h1 | h1 | h1
        · exact Or.inl h1
        · exact Or.inr h1
        · exact absurd h1 hai
    · intro a ha
      obtain ⟨c, hc, hz'⟩ := inv.stack a ha
      have hai : a ≠ i := fun e => inv.notin (e ▸ ha)
      exact ⟨c, by rw [cellAt_set _ _ _ _ hi]; simp [hai, hc], hz'⟩
  · intro x hx f t hu
    have hu1 := unfold_ext (ext_releaseKids ci.kids (h, st)) f x t hu
    have hxne : x ≠ .ptr i := by
      intro e; subst e
      have := cnt_pos_of_mem hx; omega
    exact unfold_set_unref none hi (by omega) f x t hxne hu1

theorem releaseLoop_frame {owners : List (Ref D)} : ∀ (fuel : Nat) (h : Heap D) (st : List Nat),
    WFS h owners st → ∀ x, x ∈ owners → ∀ (f : Nat) (t : OTree D), unfold f h x = some t →
      unfold f (releaseLoop fuel h st) x = some t
  | 0, h, st, _, x, _, f, t, hu => by simp only [releaseLoop]; exact hu
  | _ + 1, h, [], _, x, _, f, t, hu => by simp only [releaseLoop]; exact hu
  | fuel + 1, h, i :: st, w, x, hx, f, t, hu => by
    obtain ⟨ci, hci, w', _, hfr⟩ := pop_step w
    simp only [releaseLoop, hci]
    exact releaseLoop_frame fuel _ _ w' x hx f t (hfr x hx f t hu)

/-- `release_frame`: dropping one owned reference — with the whole cascade of frees it may cause —
cannot be observed through any of the remaining owners. -/
theorem release_frame {h : Heap D} {X : List (Ref D)} (r : Ref D) (hw : WF h (r :: X)) :
    ∀ x, x ∈ X → ∀ (f : Nat) (t : OTree D), unfold f h x = some t → unfold f (release h r) x = some t := by
  intro x hx f t hu
  cases r with
  | inl d => exact hu
  | ptr i =>
    obtain ⟨c, hc⟩ := hw.live (id := i) (by simp [cnt]; omega)
    have hu1 := unfold_ext (ext_setRc h i (· - 1)) f x t hu
    simp only [release]
    split
    · rename_i hz
      have hcell : cellAt (decr h i) i = some { c with rc := c.rc - 1 } := by
        simp only [decr]; exact cellAt_setRc_self _ _ _ hc
      have hz' : c.rc - 1 = 0 := by unfold rcOf at hz; rw [hcell] at hz; exact hz
      have hpos := hw.pos i c hc
      apply releaseLoop_frame _ _ _ _ x hx f t hu1
      refine ⟨fun a => ?_, ?_, ?_, by simp⟩
      · have := hw.count a
        simp only [cnt_cons_ptr] at this
        try simp only [decr]
        simp only [rcOf_setRc, kidsOf_setRc, hc, Option.isSome_some, and_true]
        by_cases hai : a = i
        · subst hai
          have hr : rcOf h a = c.rc := by unfold rcOf; rw [hc]
          simp at this ⊢; omega
        · have : ¬ i = a := fun e => hai e.symm
          simp [hai, this] at *; omega
      · intro a c' hc'
        by_cases hai : a = i
        · exact Or.inr (by simp [hai])
        · try simp only [decr] at hc'
          rw [cellAt_setRc_ne _ _ _ _ hai] at hc'
          exact Or.inl (hw.pos a c' hc')
      · intro a ha
        simp at ha; subst ha
        exact ⟨_, hcell, hz'⟩
    · exact hu1


/-! ### (re-)parse as an abstract build: reuse = retain, everything else is fresh -/

theorem ext_isSome {h h' : Heap D} (he : Ext h h') {i : Nat} (hl : (cellAt h i).isSome = true) :
    (cellAt h' i).isSome = true := by
  cases hc : cellAt h i with
  | none => rw [hc] at hl; cases hl
  | some c => obtain ⟨c', hc', _, _⟩ := he i c hc; rw [hc']; rfl

mutual
  theorem reusedLive_ext {h h' : Heap D} (he : Ext h h') : ∀ (s : BuildSpec D), reusedLive h s = true → reusedLive h' s = true
    | .reuse (.ptr i), hl => by unfold reusedLive at hl ⊢; exact ext_isSome he hl
    | .reuse (.inl _), _ => by unfold reusedLive; rfl
    | .leaf _, _ => by unfold reusedLive; rfl
    | .node _ specs, hl => by unfold reusedLive at hl ⊢; exact reusedLiveL_ext he specs hl
  theorem reusedLiveL_ext {h h' : Heap D} (he : Ext h h') : ∀ (ss : List (BuildSpec D)), reusedLiveL h ss = true → reusedLiveL h' ss = true
    | [], _ => by unfold reusedLiveL; rfl
    | s :: ss, hl => by
      unfold reusedLiveL at hl ⊢
      simp only [Bool.and_eq_true] at hl ⊢
      exact ⟨reusedLive_ext he s hl.1, reusedLiveL_ext he ss hl.2⟩
end

mutual
  /-- The ownership contract of a build: the caller gets one owned reference; every other owner's
  counts stay exact, every existing cell keeps its children and payload, no freed id is reused. -/
  theorem build_ok : ∀ (spec : BuildSpec D) (h : Heap D) (X : List (Ref D)), WF h X → reusedLive h spec = true →
      WF (build h spec).1 ((build h spec).2 :: X) ∧ Ext h (build h spec).1 ∧ DeadMono h (build h spec).1
    | .reuse r, h, X, hw, hl => by
      unfold build
      refine ⟨retain_wf r hw ?_, ext_retain h r, deadMono_retain h r⟩
      intro id hid
      subst hid
      unfold reusedLive at hl
      cases hc : cellAt h id with
      | none => rw [hc] at hl; cases hl
      | some c => exact ⟨c, rfl⟩
    | .leaf d, h, X, hw, _ => by
      unfold build
      exact ⟨(wf_inl_cons d).mpr hw, Ext.refl h, DeadMono.refl h⟩
    | .node d specs, h, X, hw, hl => by
      unfold reusedLive at hl
      have ih := buildKids_ok specs h X hw hl
      unfold build
      simp only
      exact ⟨alloc_wf _ d ih.1, ih.2.1.trans (ext_append _ _), ih.2.2.trans (deadMono_append _ _)⟩
  theorem buildKids_ok : ∀ (specs : List (BuildSpec D)) (h : Heap D) (X : List (Ref D)), WF h X →
      reusedLiveL h specs = true →
      WF (buildKids h specs).1 ((buildKids h specs).2 ++ X) ∧ Ext h (buildKids h specs).1 ∧
        DeadMono h (buildKids h specs).1
    | [], h, X, hw, _ => by
      unfold buildKids
      exact ⟨hw, Ext.refl h, DeadMono.refl h⟩
    | s :: ss, h, X, hw, hl => by
      unfold reusedLiveL at hl
      simp only [Bool.and_eq_true] at hl
      have h1 := build_ok s h X hw hl.1
      have hl2 := reusedLiveL_ext h1.2.1 ss hl.2
      have h2 := buildKids_ok ss (build h s).1 ((build h s).2 :: X) h1.1 hl2
      unfold buildKids
      simp only
      refine ⟨wf_perm h2.1 (fun a => ?_), h1.2.1.trans h2.2.1, h1.2.2.trans h2.2.2⟩
      simp only [List.cons_append, cnt_append]
      rw [cnt_cons a (build h s).2 X, cnt_cons a (build h s).2 (_ ++ X), cnt_append]
      omega
end


mutual
  /-- Whatever is built, existing cells keep their children and payload (no invariant needed). -/
  theorem build_ext : ∀ (spec : BuildSpec D) (h : Heap D), Ext h (build h spec).1
    | .reuse r, h => by unfold build; exact ext_retain h r
    | .leaf d, h => by unfold build; exact Ext.refl h
    | .node d specs, h => by
      unfold build
      simp only
      exact (buildKids_ext specs h).trans (ext_append _ _)
  theorem buildKids_ext : ∀ (specs : List (BuildSpec D)) (h : Heap D), Ext h (buildKids h specs).1
    | [], h => by unfold buildKids; exact Ext.refl h
    | s :: ss, h => by
      unfold buildKids
      simp only
      exact (build_ext s h).trans (buildKids_ext ss _)
end


/-! ### atomic count updates of different threads commute: no update is lost -/

theorem incsOf_cons (i : Nat) (a : Acc) (accs : List Acc) :
    incsOf i (a :: accs) = (if a = .inc i then 1 else 0) + incsOf i accs := by
  unfold incsOf
  by_cases h : a = .inc i
  · subst h; simp; omega
  · have : (a == Acc.inc i) = false := by simpa using h
    simp [this, h]

theorem decsOf_cons (i : Nat) (a : Acc) (accs : List Acc) :
    decsOf i (a :: accs) = (if a = .dec i then 1 else 0) + decsOf i accs := by
  unfold decsOf
  by_cases h : a = .dec i
  · subst h; simp; omega
  · have : (a == Acc.dec i) = false := by simpa using h
    simp [this, h]

/-- `no_lost_update`: after **any** sequence of atomic increments/decrements of live cells in which
no count is driven below zero, every count is `initial + #increments − #decrements`, and nothing
else about any cell changes.  The right-hand side does not depend on the order of the accesses. -/
theorem no_lost_update : ∀ (accs : List Acc) (h : Heap D),
    (∀ a, a ∈ accs → (cellAt h a.id).isSome = true) → (∀ i, decsOf i accs ≤ rcOf h i) →
    (∀ i, rcOf (applyAll h accs) i + decsOf i accs = rcOf h i + incsOf i accs) ∧
    (∀ i, (cellAt (applyAll h accs) i).map (fun c => (c.kids, c.data)) = (cellAt h i).map (fun c => (c.kids, c.data)))
  | [], h, _, _ => by simp [applyAll, incsOf, decsOf]
  | a :: accs, h, hl, hd => by
    have hlive := hl a List.mem_cons_self
    have hstep_live : ∀ j, (cellAt (Acc.apply h a) j).isSome = (cellAt h j).isSome := by
      intro j
      cases a with
      | inc i => exact isSome_setRc h i j (· + 1)
      | dec i => exact isSome_setRc h i j (· - 1)
    have hkd : ∀ j, (cellAt (Acc.apply h a) j).map (fun c => (c.kids, c.data)) = (cellAt h j).map (fun c => (c.kids, c.data)) := by
      intro j
      cases a with
      | inc i => exact cell_retain h (.ptr i) j
      | dec i =>
        simp only [Acc.apply, decr]
        by_cases hji : j = i
        · subst hji
          cases hc : cellAt h j with
          | none => unfold setRc; rw [hc]; simp [hc]
          | some c => rw [cellAt_setRc_self _ _ _ hc]; simp
        · rw [cellAt_setRc_ne _ _ _ _ hji]
    have hrc : ∀ j, rcOf (Acc.apply h a) j + (if a = .dec j then 1 else 0) = rcOf h j + (if a = .inc j then 1 else 0) := by
      intro j
      cases a with
      | inc i =>
        simp only [Acc.apply, incr, rcOf_setRc]
        simp only [Acc.id] at hlive
        by_cases hji : j = i
        · subst hji; simp [hlive]
        · have : ¬ i = j := fun e => hji e.symm
          simp [hji, this]
      | dec i =>
        simp only [Acc.apply, decr, rcOf_setRc]
        simp only [Acc.id] at hlive
        by_cases hji : j = i
        · subst hji
          have := hd j
          rw [decsOf_cons] at this
          simp [hlive] at this ⊢; omega
        · have : ¬ i = j := fun e => hji e.symm
          simp [hji, this]
    have ih := no_lost_update accs (Acc.apply h a)
      (fun b hb => by rw [hstep_live]; exact hl b (List.mem_cons_of_mem _ hb))
      (fun i => by
        have h1 := hd i; have h2 := hrc i
        rw [decsOf_cons] at h1
        split at h2 <;> split at h2 <;> simp_all <;> omega)
    refine ⟨fun i => ?_, fun i => ?_⟩
    · have h1 := ih.1 i; have h2 := hrc i
      simp only [applyAll, List.foldl_cons] at h1 ⊢
      rw [incsOf_cons, decsOf_cons]
      omega
    · have := ih.2 i
      simp only [applyAll, List.foldl_cons] at this ⊢
      rw [this, hkd]

theorem incsOf_perm {a b : List Acc} (hp : a.Perm b) (i : Nat) : incsOf i a = incsOf i b := by
  unfold incsOf; exact (hp.filter _).length_eq

theorem decsOf_perm {a b : List Acc} (hp : a.Perm b) (i : Nat) : decsOf i a = decsOf i b := by
  unfold decsOf; exact (hp.filter _).length_eq

/-- `count_interleavings_agree`: two interleavings of the same atomic accesses (any permutation — in
particular every interleaving of per-thread sequences and their sequential composition) leave every
cell in the same state. -/
theorem count_interleavings_agree {accs accs' : List Acc} (hp : accs.Perm accs') (h : Heap D)
    (hl : ∀ a, a ∈ accs → (cellAt h a.id).isSome = true) (hd : ∀ i, decsOf i accs ≤ rcOf h i) (i : Nat) :
    cellAt (applyAll h accs) i = cellAt (applyAll h accs') i := by
  have h1 := no_lost_update accs h hl hd
  have h2 := no_lost_update accs' h (fun a ha => hl a (hp.mem_iff.mpr ha)) (fun j => by rw [← decsOf_perm hp j]; exact hd j)
  have hrc : rcOf (applyAll h accs) i = rcOf (applyAll h accs') i := by
    have a := h1.1 i; have b := h2.1 i
    rw [← incsOf_perm hp i, ← decsOf_perm hp i] at b
    omega
  have hkd : (cellAt (applyAll h accs) i).map (fun c => (c.kids, c.data)) = (cellAt (applyAll h accs') i).map (fun c => (c.kids, c.data)) := by
    rw [h1.2 i, h2.2 i]
  unfold rcOf at hrc
  cases hx : cellAt (applyAll h accs) i with
  | none =>
    rw [hx] at hkd
    cases hy : cellAt (applyAll h accs') i with
    | none => rfl
    | some c' => rw [hy] at hkd; simp at hkd
  | some c =>
    rw [hx] at hkd hrc
    cases hy : cellAt (applyAll h accs') i with
    | none => rw [hy] at hkd; simp at hkd
    | some c' =>
      rw [hy] at hkd hrc
      simp at hkd hrc
      cases c; cases c'
      simp_all

end TsVerif.C08
