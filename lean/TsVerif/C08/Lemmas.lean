import TsVerif.C08.Model
/-!
# C08 — counting lemmas for the reference-counted heap
-/
namespace TsVerif.C08

variable {D : Type}

/-- Number of occurrences of `ptr id` in a list of references. -/
def cnt (id : Nat) : List (Ref D) → Nat
  | [] => 0
  | .ptr j :: rs => (if j = id then 1 else 0) + cnt id rs
  | .inl _ :: rs => cnt id rs

@[simp] theorem cnt_nil (id : Nat) : cnt id ([] : List (Ref D)) = 0 := rfl

theorem cnt_append (id : Nat) (a b : List (Ref D)) : cnt id (a ++ b) = cnt id a + cnt id b := by
  induction a with
  | nil => simp
  | cons r rs ih =>
    cases r with
    | inl d => simpa [cnt] using ih
    | ptr j => simp only [List.cons_append, cnt, ih]; omega

def kidsOpt : Option (Cell D) → List (Ref D)
  | some c => c.kids
  | none => []

theorem kidsOf_eq (h : Heap D) : kidsOf h = h.flatMap kidsOpt := by
  unfold kidsOf
  congr 1

theorem kidsOf_nil : kidsOf ([] : Heap D) = [] := rfl

theorem kidsOf_cons (o : Option (Cell D)) (h : Heap D) : kidsOf (o :: h) = kidsOpt o ++ kidsOf h := by
  simp [kidsOf_eq]

theorem kidsOf_append (a b : Heap D) : kidsOf (a ++ b) = kidsOf a ++ kidsOf b := by
  simp [kidsOf_eq]

/-- Replacing slot `i`: the child references of the old slot go, those of the new one come. -/
theorem cnt_kidsOf_set (id : Nat) : ∀ (h : Heap D) (i : Nat) (o : Option (Cell D)), i < h.length →
    cnt id (kidsOf (h.set i o)) + cnt id (kidsOpt (h[i]?.getD none)) = cnt id (kidsOf h) + cnt id (kidsOpt o)
  | [], i, o, hi => by simp at hi
  | x :: h, 0, o, _ => by
    simp only [List.set_cons_zero, kidsOf_cons, cnt_append, List.getElem?_cons_zero, Option.getD_some]
    omega
  | x :: h, i + 1, o, hi => by
    have := cnt_kidsOf_set id h i o (by simpa using hi)
    simp only [List.set_cons_succ, kidsOf_cons, cnt_append, List.getElem?_cons_succ]
    omega

theorem cellAt_some {h : Heap D} {id : Nat} {c : Cell D} (hc : cellAt h id = some c) :
    h[id]? = some (some c) := by
  unfold cellAt at hc
  split at hc
  · rename_i c' heq; cases hc; exact heq
  · cases hc

theorem cellAt_lt {h : Heap D} {id : Nat} {c : Cell D} (hc : cellAt h id = some c) : id < h.length := by
  have := cellAt_some hc
  rcases Nat.lt_or_ge id h.length with h1 | h1
  · exact h1
  · rw [List.getElem?_eq_none h1] at this; cases this

theorem cellAt_set (h : Heap D) (i j : Nat) (o : Option (Cell D)) (hi : i < h.length) :
    cellAt (h.set i o) j = if j = i then o else cellAt h j := by
  unfold cellAt
  rw [List.getElem?_set]
  by_cases hji : j = i
  · subst hji; simp [hi]; cases o <;> rfl
  · have : ¬ i = j := fun e => hji e.symm
    simp [hji, this]

theorem cellAt_append_left (h : Heap D) (x : Heap D) (j : Nat) (hj : j < h.length) : cellAt (h ++ x) j = cellAt h j := by
  unfold cellAt
  rw [List.getElem?_append_left hj]

theorem cellAt_append_new (h : Heap D) (c : Cell D) : cellAt (h ++ [some c]) h.length = some c := by
  unfold cellAt
  simp

theorem cellAt_ge (h : Heap D) (j : Nat) (hj : h.length ≤ j) : cellAt h j = none := by
  unfold cellAt
  rw [List.getElem?_eq_none hj]

theorem rcOf_set (h : Heap D) (i j : Nat) (c : Cell D) (hi : i < h.length) :
    rcOf (h.set i (some c)) j = if j = i then c.rc else rcOf h j := by
  unfold rcOf
  rw [cellAt_set h i j _ hi]
  by_cases hji : j = i <;> simp [hji]

theorem rcOf_set_none (h : Heap D) (i j : Nat) (hi : i < h.length) :
    rcOf (h.set i none) j = if j = i then 0 else rcOf h j := by
  unfold rcOf
  rw [cellAt_set h i j _ hi]
  by_cases hji : j = i <;> simp [hji]

/-- The invariant: every id's stored count (0 for dead ids) equals the number of references to it
held by the given owner list plus by child links of live cells; live cells have a positive count. -/
structure WF (h : Heap D) (owners : List (Ref D)) : Prop where
  count : ∀ id, rcOf h id = cnt id owners + cnt id (kidsOf h)
  pos : ∀ id c, cellAt h id = some c → 1 ≤ c.rc

theorem wf_perm {h : Heap D} {a b : List (Ref D)} (hw : WF h a) (hp : ∀ id, cnt id a = cnt id b) : WF h b :=
  ⟨fun id => by rw [hw.count id, hp id], hw.pos⟩

/-- An id that is referenced is live. -/
theorem WF.live {h : Heap D} {owners : List (Ref D)} (hw : WF h owners) {id : Nat}
    (hpos : 0 < cnt id owners + cnt id (kidsOf h)) : ∃ c, cellAt h id = some c := by
  have := hw.count id
  unfold rcOf at this
  cases hc : cellAt h id with
  | some c => exact ⟨c, rfl⟩
  | none => rw [hc] at this; simp at this; omega

/-! ### setRc / incr / decr -/

theorem setRc_of_cell {h : Heap D} {id : Nat} {c : Cell D} (hc : cellAt h id = some c) (f : Nat → Nat) :
    setRc h id f = h.set id (some { c with rc := f c.rc }) := by
  unfold setRc; rw [hc]

theorem kidsOf_setRc (h : Heap D) (id : Nat) (f : Nat → Nat) (a : Nat) :
    cnt a (kidsOf (setRc h id f)) = cnt a (kidsOf h) := by
  cases hc : cellAt h id with
  | none => unfold setRc; rw [hc]
  | some c =>
    rw [setRc_of_cell hc]
    have := cnt_kidsOf_set a h id (some { c with rc := f c.rc }) (cellAt_lt hc)
    rw [cellAt_some hc] at this
    simp only [Option.getD_some, kidsOpt] at this
    omega

theorem rcOf_setRc (h : Heap D) (id j : Nat) (f : Nat → Nat) :
    rcOf (setRc h id f) j = if j = id ∧ (cellAt h id).isSome then f (rcOf h id) else rcOf h j := by
  cases hc : cellAt h id with
  | none => unfold setRc; rw [hc]; simp
  | some c =>
    rw [setRc_of_cell hc, rcOf_set _ _ _ _ (cellAt_lt hc)]
    by_cases hji : j = id
    · subst hji; simp [rcOf, hc]
    · simp [hji]

theorem cellAt_setRc_ne (h : Heap D) (id j : Nat) (f : Nat → Nat) (hne : j ≠ id) :
    cellAt (setRc h id f) j = cellAt h j := by
  cases hc : cellAt h id with
  | none => unfold setRc; rw [hc]
  | some c => rw [setRc_of_cell hc, cellAt_set _ _ _ _ (cellAt_lt hc)]; simp [hne]

theorem cellAt_setRc_self (h : Heap D) (id : Nat) (f : Nat → Nat) {c : Cell D} (hc : cellAt h id = some c) :
    cellAt (setRc h id f) id = some { c with rc := f c.rc } := by
  rw [setRc_of_cell hc, cellAt_set _ _ _ _ (cellAt_lt hc)]; simp

theorem length_setRc (h : Heap D) (id : Nat) (f : Nat → Nat) : (setRc h id f).length = h.length := by
  unfold setRc; split <;> simp

/-- `retain` adds one owner. -/
theorem retain_wf {h : Heap D} {owners : List (Ref D)} (r : Ref D) (hw : WF h owners)
    (hlive : ∀ id, r = .ptr id → ∃ c, cellAt h id = some c) : WF (retain h r) (r :: owners) := by
  cases r with
  | inl d => exact ⟨fun id => by simpa [retain, cnt] using hw.count id, hw.pos⟩
  | ptr i =>
    obtain ⟨c, hc⟩ := hlive i rfl
    refine ⟨fun id => ?_, ?_⟩
    · simp only [retain, incr, rcOf_setRc, kidsOf_setRc, cnt, hc, Option.isSome_some, and_true]
      have := hw.count id
      by_cases hid : id = i
      · subst hid; simp; omega
      · have : ¬ i = id := fun e => hid e.symm
        simp [hid, this]; omega
    · intro id c' hc'
      by_cases hid : id = i
      · subst hid
        simp only [retain, incr] at hc'
        rw [cellAt_setRc_self _ _ _ hc] at hc'
        cases hc'; simp
      · simp only [retain, incr] at hc'
        rw [cellAt_setRc_ne _ _ _ _ hid] at hc'
        exact hw.pos id c' hc'

/-- Dropping one owner of a cell whose count stays positive. -/
theorem decr_wf {h : Heap D} {owners : List (Ref D)} {i : Nat} (hw : WF h (.ptr i :: owners))
    (hrc : 2 ≤ rcOf h i) : WF (decr h i) owners := by
  have hlive : ∃ c, cellAt h i = some c := by
    unfold rcOf at hrc
    cases hc : cellAt h i with
    | some c => exact ⟨c, rfl⟩
    | none => rw [hc] at hrc; simp at hrc
  obtain ⟨c, hc⟩ := hlive
  refine ⟨fun id => ?_, ?_⟩
  · simp only [decr, rcOf_setRc, kidsOf_setRc, hc, Option.isSome_some, and_true]
    have := hw.count id
    simp only [cnt] at this
    by_cases hid : id = i
    · subst hid; simp at this ⊢; omega
    · have h2 : ¬ i = id := fun e => hid e.symm
      simp [hid, h2] at this ⊢; omega
  · intro id c' hc'
    by_cases hid : id = i
    · subst hid
      simp only [decr] at hc'
      rw [cellAt_setRc_self _ _ _ hc] at hc'
      cases hc'
      simp only [rcOf, hc] at hrc
      simp; omega
    · simp only [decr] at hc'
      rw [cellAt_setRc_ne _ _ _ _ hid] at hc'
      exact hw.pos id c' hc'


/-! ### liveness is not changed by count updates -/

theorem isSome_setRc (h : Heap D) (id j : Nat) (f : Nat → Nat) :
    (cellAt (setRc h id f) j).isSome = (cellAt h j).isSome := by
  by_cases hji : j = id
  · subst hji
    cases hc : cellAt h j with
    | none => unfold setRc; rw [hc]; simp [hc]
    | some c => rw [cellAt_setRc_self _ _ _ hc]; simp
  · rw [cellAt_setRc_ne _ _ _ _ hji]

theorem isSome_retain (h : Heap D) (r : Ref D) (j : Nat) : (cellAt (retain h r) j).isSome = (cellAt h j).isSome := by
  cases r with
  | inl d => rfl
  | ptr i => exact isSome_setRc h i j _

theorem length_retain (h : Heap D) (r : Ref D) : (retain h r).length = h.length := by
  cases r with
  | inl d => rfl
  | ptr i => exact length_setRc h i _

theorem length_retainAll (ks : List (Ref D)) : ∀ (h : Heap D), (retainAll h ks).length = h.length := by
  induction ks with
  | nil => intro h; rfl
  | cons k ks ih => intro h; simp only [retainAll, List.foldl_cons] at ih ⊢; rw [ih, length_retain]

/-- Kids and data of every cell are untouched by `retain`. -/
theorem cell_retain (h : Heap D) (r : Ref D) (j : Nat) :
    (cellAt (retain h r) j).map (fun c => (c.kids, c.data)) = (cellAt h j).map (fun c => (c.kids, c.data)) := by
  cases r with
  | inl d => rfl
  | ptr i =>
    simp only [retain, incr]
    by_cases hji : j = i
    · subst hji
      cases hc : cellAt h j with
      | none => unfold setRc; rw [hc]; simp [hc]
      | some c => rw [cellAt_setRc_self _ _ _ hc]; simp
    · rw [cellAt_setRc_ne _ _ _ _ hji]

theorem cell_retainAll (ks : List (Ref D)) : ∀ (h : Heap D) (j : Nat),
    (cellAt (retainAll h ks) j).map (fun c => (c.kids, c.data)) = (cellAt h j).map (fun c => (c.kids, c.data)) := by
  induction ks with
  | nil => intro h j; rfl
  | cons k ks ih => intro h j; simp only [retainAll, List.foldl_cons] at ih ⊢; rw [ih, cell_retain]

theorem cnt_cons_ptr (id j : Nat) (rs : List (Ref D)) : cnt id (.ptr j :: rs) = (if j = id then 1 else 0) + cnt id rs := rfl
theorem cnt_cons_inl (id : Nat) (d : D) (rs : List (Ref D)) : cnt id (.inl d :: rs) = cnt id rs := rfl

theorem cnt_cons (id : Nat) (r : Ref D) (rs : List (Ref D)) : cnt id (r :: rs) = cnt id [r] + cnt id rs := by
  cases r <;> simp [cnt]

/-- A reference that occurs in a list is counted. -/
theorem cnt_pos_of_mem {id : Nat} {rs : List (Ref D)} (h : Ref.ptr id ∈ rs) : 0 < cnt id rs := by
  induction rs with
  | nil => cases h
  | cons r rs ih =>
    cases h with
    | head => simp [cnt]; omega
    | tail _ h' => have := ih h'; rw [cnt_cons]; omega

/-- The children of a live cell are counted among the child links of the heap. -/
theorem cnt_kids_le (a : Nat) : ∀ (h : Heap D) (i : Nat) (c : Cell D), cellAt h i = some c →
    cnt a c.kids ≤ cnt a (kidsOf h)
  | [], i, c, hc => by simp [cellAt] at hc
  | x :: h, 0, c, hc => by
    have := cellAt_some hc
    simp at this; subst this
    simp [kidsOf_cons, cnt_append, kidsOpt]
  | x :: h, i + 1, c, hc => by
    have h1 : cellAt h i = some c := by
      have := cellAt_some hc
      simp at this
      unfold cellAt; rw [this]
    have := cnt_kids_le a h i c h1
    simp only [kidsOf_cons, cnt_append]; omega

theorem retainAll_wf (ks : List (Ref D)) : ∀ (h : Heap D) (owners : List (Ref D)), WF h owners →
    (∀ id, Ref.ptr id ∈ ks → ∃ c, cellAt h id = some c) → WF (retainAll h ks) (ks ++ owners) := by
  induction ks with
  | nil => intro h owners hw _; exact hw
  | cons k ks ih =>
    intro h owners hw hl
    simp only [retainAll, List.foldl_cons]
    have h1 : WF (retain h k) (k :: owners) := retain_wf k hw (fun id hk => hl id (by rw [hk]; exact List.mem_cons_self))
    have h2 := ih (retain h k) (k :: owners) h1 (by
      intro id hid
      obtain ⟨c, hc⟩ := hl id (List.mem_cons_of_mem _ hid)
      have := isSome_retain h k id
      rw [hc] at this
      cases hc' : cellAt (retain h k) id with
      | some c' => exact ⟨c', rfl⟩
      | none => rw [hc'] at this; cases this)
    refine wf_perm h2 (fun id => ?_)
    simp only [List.cons_append, cnt_append]
    rw [cnt_cons id k owners, cnt_cons id k (ks ++ owners), cnt_append]
    omega

/-! ### allocation of a fresh cell -/

theorem alloc_wf {h : Heap D} {owners : List (Ref D)} (kids : List (Ref D)) (d : D)
    (hw : WF h (kids ++ owners)) : WF (h ++ [some { rc := 1, kids := kids, data := d }]) (.ptr h.length :: owners) := by
  have hfresh := hw.count h.length
  have hz : rcOf h h.length = 0 := by unfold rcOf; rw [cellAt_ge h _ (Nat.le_refl _)]
  rw [hz, cnt_append] at hfresh
  refine ⟨fun id => ?_, ?_⟩
  · simp only [kidsOf_append, cnt_append, kidsOf_cons, kidsOf_nil, kidsOpt, List.append_nil, cnt_cons_ptr]
    by_cases hid : id = h.length
    · subst hid
      have : rcOf (h ++ [some ({ rc := 1, kids := kids, data := d } : Cell D)]) h.length = 1 := by
        unfold rcOf; rw [cellAt_append_new]
      rw [this]; simp; omega
    · have hne : ¬ h.length = id := fun e => hid e.symm
      have hr : rcOf (h ++ [some ({ rc := 1, kids := kids, data := d } : Cell D)]) id = rcOf h id := by
        unfold rcOf
        rcases Nat.lt_or_ge id h.length with hlt | hge
        · rw [cellAt_append_left _ _ _ hlt]
        · have : (h ++ [some ({ rc := 1, kids := kids, data := d } : Cell D)]).length ≤ id := by simp; omega
          rw [cellAt_ge _ _ this, cellAt_ge _ _ hge]
      rw [hr, hw.count id, cnt_append]; simp [hne]; omega
  · intro id c hc
    rcases Nat.lt_or_ge id h.length with hlt | hge
    · rw [cellAt_append_left _ _ _ hlt] at hc; exact hw.pos id c hc
    · by_cases hid : id = h.length
      · subst hid; rw [cellAt_append_new] at hc; cases hc; simp
      · have : (h ++ [some ({ rc := 1, kids := kids, data := d } : Cell D)]).length ≤ id := by simp; omega
        rw [cellAt_ge _ _ this] at hc; cases hc

/-- `ts_subtree_clone`: the clone is a new owner-less cell handed to the caller; the original and
its children keep consistent counts. -/
theorem clone_wf {h : Heap D} {owners : List (Ref D)} {i : Nat} {c : Cell D} (hw : WF h owners)
    (hc : cellAt h i = some c) : WF (clone h c).1 (.ptr (clone h c).2 :: owners) := by
  have hkl : ∀ id, Ref.ptr id ∈ c.kids → ∃ c', cellAt h id = some c' := by
    intro id hid
    apply hw.live
    have := cnt_kids_le id h i c hc
    have := cnt_pos_of_mem hid
    omega
  have h1 := retainAll_wf c.kids h owners hw hkl
  have := alloc_wf (h := retainAll h c.kids) c.kids c.data h1
  simpa [clone] using this

theorem rcOf_retain_ge (h : Heap D) (r : Ref D) (j : Nat) : rcOf h j ≤ rcOf (retain h r) j := by
  cases r with
  | inl d => exact Nat.le_refl _
  | ptr i =>
    simp only [retain, incr, rcOf_setRc]
    split
    · rename_i hh; rw [hh.1]; omega
    · exact Nat.le_refl _

theorem rcOf_retainAll_ge (ks : List (Ref D)) : ∀ (h : Heap D) (j : Nat), rcOf h j ≤ rcOf (retainAll h ks) j := by
  induction ks with
  | nil => intro h j; exact Nat.le_refl _
  | cons k ks ih =>
    intro h j
    simp only [retainAll, List.foldl_cons] at ih ⊢
    exact Nat.le_trans (rcOf_retain_ge h k j) (ih _ j)

/-- Result of `make_mut`: an exclusively owned cell with the same children and payload, and the
invariant with the caller now owning the result instead of the argument. -/
theorem makeMut_wf {h : Heap D} {X : List (Ref D)} {i : Nat} (hw : WF h (.ptr i :: X)) :
    WF (makeMut h i).1 (.ptr (makeMut h i).2 :: X) ∧
    ∃ c c', cellAt h i = some c ∧ cellAt (makeMut h i).1 (makeMut h i).2 = some c' ∧
      c'.rc = 1 ∧ c'.kids = c.kids ∧ c'.data = c.data := by
  obtain ⟨c, hc⟩ := hw.live (id := i) (by simp [cnt]; omega)
  unfold makeMut
  simp only [hc]
  by_cases h1 : c.rc = 1
  · simp only [h1, if_true]
    exact ⟨hw, c, c, rfl, hc, h1, rfl, rfl⟩
  · simp only [h1, if_false]
    have hpos := hw.pos i c hc
    have hcl := clone_wf hw hc
    -- after the clone the original still has ≥ 2 owners: release is a plain decrement
    have hlen : (retainAll h c.kids).length = h.length := length_retainAll _ _
    have hi_lt : i < (retainAll h c.kids).length := by rw [hlen]; exact cellAt_lt hc
    have hrc2 : 2 ≤ rcOf (clone h c).1 i := by
      have : rcOf (clone h c).1 i = rcOf (retainAll h c.kids) i := by
        unfold rcOf clone; simp only; rw [cellAt_append_left _ _ _ hi_lt]
      rw [this]
      have := rcOf_retainAll_ge c.kids h i
      have hr : rcOf h i = c.rc := by unfold rcOf; rw [hc]
      omega
    have hw2 : WF (clone h c).1 (.ptr i :: .ptr (clone h c).2 :: X) :=
      wf_perm hcl (fun id => by simp only [cnt_cons_ptr]; omega)
    have hdec := decr_wf hw2 hrc2
    have hrel : release (clone h c).1 (.ptr i) = decr (clone h c).1 i := by
      unfold release
      have : rcOf (decr (clone h c).1 i) i ≠ 0 := by
        have hlive : (cellAt (clone h c).1 i).isSome := by
          unfold rcOf at hrc2
          cases hx : cellAt (clone h c).1 i with
          | some _ => rfl
          | none => rw [hx] at hrc2; simp at hrc2
        simp only [decr, rcOf_setRc, hlive, and_true, if_true]
        omega
      simp [this]
    rw [hrel]
    refine ⟨hdec, c, { rc := 1, kids := c.kids, data := c.data }, rfl, ?_, rfl, rfl, rfl⟩
    have hne : (clone h c).2 ≠ i := by
      simp only [clone]; omega
    simp only [decr]
    rw [cellAt_setRc_ne _ _ _ _ hne]
    simp only [clone]
    exact cellAt_append_new _ _


/-! ### freed cells stay freed, ids are never reused -/

/-- `h'` extends `h`: no slot disappears and no freed (or never live) slot of `h` is live again. -/
def DeadMono (h h' : Heap D) : Prop :=
  h.length ≤ h'.length ∧ ∀ j, j < h.length → cellAt h j = none → cellAt h' j = none

theorem DeadMono.refl (h : Heap D) : DeadMono h h := ⟨Nat.le_refl _, fun _ _ hj => hj⟩

theorem DeadMono.trans {a b c : Heap D} (h1 : DeadMono a b) (h2 : DeadMono b c) : DeadMono a c :=
  ⟨Nat.le_trans h1.1 h2.1, fun j hj hd => h2.2 j (Nat.lt_of_lt_of_le hj h1.1) (h1.2 j hj hd)⟩

theorem deadMono_setRc (h : Heap D) (id : Nat) (f : Nat → Nat) : DeadMono h (setRc h id f) := by
  refine ⟨by rw [length_setRc]; exact Nat.le_refl _, fun j _ hd => ?_⟩
  have := isSome_setRc h id j f
  rw [hd] at this
  cases hx : cellAt (setRc h id f) j with
  | none => rfl
  | some _ => rw [hx] at this; cases this

theorem deadMono_retain (h : Heap D) (r : Ref D) : DeadMono h (retain h r) := by
  cases r with
  | inl d => exact DeadMono.refl h
  | ptr i => exact deadMono_setRc h i _

theorem deadMono_retainAll (ks : List (Ref D)) : ∀ h : Heap D, DeadMono h (retainAll h ks) := by
  induction ks with
  | nil => intro h; exact DeadMono.refl h
  | cons k ks ih =>
    intro h
    simp only [retainAll, List.foldl_cons] at ih ⊢
    exact (deadMono_retain h k).trans (ih _)

theorem deadMono_append (h x : Heap D) : DeadMono h (h ++ x) :=
  ⟨by simp, fun j hj hd => by rw [cellAt_append_left _ _ _ hj]; exact hd⟩

theorem deadMono_set_none (h : Heap D) (i : Nat) : DeadMono h (h.set i none) := by
  refine ⟨by simp, fun j hj hd => ?_⟩
  by_cases hi : i < h.length
  · rw [cellAt_set _ _ _ _ hi]; split <;> simp [hd]
  · rw [List.set_eq_of_length_le (Nat.le_of_not_lt hi)]; exact hd

theorem deadMono_releaseKid (hs : Heap D × List Nat) (k : Ref D) : DeadMono hs.1 (releaseKid hs k).1 := by
  cases k with
  | inl d => exact DeadMono.refl _
  | ptr kid =>
    simp only [releaseKid]
    split
    · show DeadMono hs.1 (setRc hs.1 kid (· - 1)); exact deadMono_setRc hs.1 kid _
    · show DeadMono hs.1 (setRc hs.1 kid (· - 1)); exact deadMono_setRc hs.1 kid _

theorem deadMono_releaseKids (ks : List (Ref D)) : ∀ hs : Heap D × List Nat, DeadMono hs.1 (ks.foldl releaseKid hs).1 := by
  induction ks with
  | nil => intro hs; exact DeadMono.refl _
  | cons k ks ih => intro hs; simp only [List.foldl_cons]; exact (deadMono_releaseKid hs k).trans (ih _)

theorem deadMono_releaseLoop : ∀ (f : Nat) (h : Heap D) (st : List Nat), DeadMono h (releaseLoop f h st)
  | 0, h, _ => DeadMono.refl h
  | _ + 1, h, [] => DeadMono.refl h
  | f + 1, h, id :: st => by
    simp only [releaseLoop]
    split
    · exact ((deadMono_releaseKids _ (h, st)).trans (deadMono_set_none _ id)).trans (deadMono_releaseLoop f _ _)
    · exact deadMono_releaseLoop f h st

theorem deadMono_release (h : Heap D) (r : Ref D) : DeadMono h (release h r) := by
  cases r with
  | inl d => exact DeadMono.refl h
  | ptr i =>
    simp only [release]
    split
    · exact (deadMono_setRc h i _).trans (deadMono_releaseLoop _ _ _)
    · exact deadMono_setRc h i _

theorem deadMono_clone (h : Heap D) (c : Cell D) : DeadMono h (clone h c).1 := by
  simp only [clone]
  exact (deadMono_retainAll c.kids h).trans (deadMono_append _ _)

theorem deadMono_makeMut (h : Heap D) (i : Nat) : DeadMono h (makeMut h i).1 := by
  unfold makeMut
  split
  · split
    · exact DeadMono.refl h
    · rename_i c _ _
      show DeadMono h (release (clone h c).1 (.ptr i))
      exact (deadMono_clone h c).trans (deadMono_release _ _)
  · exact DeadMono.refl h


/-! ### taking an exclusively owned cell out of the heap and putting it back -/

theorem takeOut_wf {h : Heap D} {X : List (Ref D)} {i : Nat} {c : Cell D} (hw : WF h (.ptr i :: X))
    (hc : cellAt h i = some c) (h1 : c.rc = 1) : WF (h.set i none) (c.kids ++ X) := by
  have hi := cellAt_lt hc
  refine ⟨fun j => ?_, ?_⟩
  · have hk := cnt_kidsOf_set j h i none hi
    rw [cellAt_some hc] at hk
    simp only [Option.getD_some, kidsOpt, cnt_nil] at hk
    have hwj := hw.count j
    rw [rcOf_set_none _ _ _ hi, cnt_append]
    simp only [cnt_cons_ptr] at hwj
    by_cases hji : j = i
    · subst hji
      have : rcOf h j = 1 := by unfold rcOf; rw [hc]; exact h1
      simp at hwj ⊢; omega
    · have : ¬ i = j := fun e => hji e.symm
      simp [hji, this] at hwj ⊢; omega
  · intro j c' hc'
    rw [cellAt_set _ _ _ _ hi] at hc'
    by_cases hji : j = i
    · simp [hji] at hc'
    · simp [hji] at hc'; exact hw.pos j c' hc'

theorem putBack_wf {h : Heap D} {X ks : List (Ref D)} {i : Nat} (d : D) (hw : WF h (ks ++ X))
    (hd : cellAt h i = none) (hi : i < h.length) :
    WF (h.set i (some { rc := 1, kids := ks, data := d })) (.ptr i :: X) := by
  have hslot : kidsOpt (h[i]?.getD none) = [] := by
    unfold cellAt at hd
    cases hx : h[i]? with
    | none => rfl
    | some o =>
      cases o with
      | none => rfl
      | some c => rw [hx] at hd; cases hd
  refine ⟨fun j => ?_, ?_⟩
  · have hk := cnt_kidsOf_set j h i (some { rc := 1, kids := ks, data := d }) hi
    rw [hslot] at hk
    simp only [kidsOpt, cnt_nil] at hk
    have hwj := hw.count j
    rw [cnt_append] at hwj
    rw [rcOf_set _ _ _ _ hi]
    simp only [cnt_cons_ptr]
    by_cases hji : j = i
    · subst hji
      have : rcOf h j = 0 := by unfold rcOf; rw [hd]
      simp; omega
    · have : ¬ i = j := fun e => hji e.symm
      simp [hji, this]; omega
  · intro j c' hc'
    rw [cellAt_set _ _ _ _ hi] at hc'
    by_cases hji : j = i
    · simp [hji] at hc'; cases hc'; simp
    · simp [hji] at hc'; exact hw.pos j c' hc'

theorem wf_inl_cons {h : Heap D} {X : List (Ref D)} (d : D) : WF h (.inl d :: X) ↔ WF h X :=
  ⟨fun hw => ⟨fun id => by simpa [cnt] using hw.count id, hw.pos⟩,
   fun hw => ⟨fun id => by simpa [cnt] using hw.count id, hw.pos⟩⟩

mutual
  /-- The ownership skeleton of `ts_subtree_edit` keeps the counting invariant: the caller hands
  in one owned reference and gets one owned reference back. Freed ids are never reused. -/
  theorem editRef_ok : ∀ (spec : EditSpec D) (h : Heap D) (r : Ref D) (X : List (Ref D)), WF h (r :: X) →
      WF (editRef h r spec).1 ((editRef h r spec).2 :: X) ∧ DeadMono h (editRef h r spec).1
    | .skip, h, r, X, hw => by
      unfold editRef
      exact ⟨hw, DeadMono.refl h⟩
    | .visit nd promote specs, h, .inl d, X, hw => by
      unfold editRef
      by_cases hp : promote = true
      · simp only [hp, if_true]
        have := alloc_wf (h := h) (owners := X) [] nd (by simpa using (wf_inl_cons d).mp hw)
        exact ⟨this, deadMono_append _ _⟩
      · simp only [hp]
        exact ⟨(wf_inl_cons nd).mpr ((wf_inl_cons d).mp hw), DeadMono.refl h⟩
    | .visit nd promote specs, h, .ptr id0, X, hw => by
      obtain ⟨hw1, c, c', hc, hc', hrc, hkids, hdata⟩ := makeMut_wf hw
      have hdm1 := deadMono_makeMut h id0
      unfold editRef
      simp only [hc']
      have hi := cellAt_lt hc'
      have hw2 := takeOut_wf hw1 hc' hrc
      have ih := editKids_ok specs ((makeMut h id0).1.set (makeMut h id0).2 none) c'.kids X hw2
      have hdead2 : cellAt ((makeMut h id0).1.set (makeMut h id0).2 none) (makeMut h id0).2 = none := by
        rw [cellAt_set _ _ _ _ hi]; simp
      have hi2 : (makeMut h id0).2 < ((makeMut h id0).1.set (makeMut h id0).2 none).length := by simpa using hi
      have hdead3 := ih.2.2 _ hi2 hdead2
      have hi3 := Nat.lt_of_lt_of_le hi2 ih.2.1
      have hfin := putBack_wf nd ih.1 hdead3 hi3
      rw [hrc]
      refine ⟨hfin, ?_⟩
      refine ⟨by simp; exact Nat.le_trans hdm1.1 (by simpa using ih.2.1), fun j hj hd => ?_⟩
      have hd1 := hdm1.2 j hj hd
      have hj1 := Nat.lt_of_lt_of_le hj hdm1.1
      have hne : j ≠ (makeMut h id0).2 := by
        intro e; rw [e, hc'] at hd1; cases hd1
      have hd2 : cellAt ((makeMut h id0).1.set (makeMut h id0).2 none) j = none := by
        rw [cellAt_set _ _ _ _ hi]; simp [hne, hd1]
      have hd3 := ih.2.2 j (by simpa using hj1) hd2
      rw [cellAt_set _ _ _ _ hi3]; simp [hne, hd3]
  theorem editKids_ok : ∀ (specs : List (EditSpec D)) (h : Heap D) (ks : List (Ref D)) (X : List (Ref D)),
      WF h (ks ++ X) → WF (editKids h ks specs).1 ((editKids h ks specs).2 ++ X) ∧ DeadMono h (editKids h ks specs).1
    | _, h, [], X, hw => by
      unfold editKids
      exact ⟨hw, DeadMono.refl h⟩
    | [], h, k :: ks, X, hw => by
      unfold editKids
      exact ⟨hw, DeadMono.refl h⟩
    | s :: ss, h, k :: ks, X, hw => by
      unfold editKids
      have h1 := editRef_ok s h k (ks ++ X) (by simpa using hw)
      have hw1' : WF (editRef h k s).1 (ks ++ ((editRef h k s).2 :: X)) :=
        wf_perm h1.1 (fun id => by
          rw [cnt_cons, cnt_append, cnt_append, cnt_cons id (editRef h k s).2 X]; omega)
      have h2 := editKids_ok ss (editRef h k s).1 ks ((editRef h k s).2 :: X) hw1'
      refine ⟨wf_perm h2.1 (fun id => ?_), h1.2.trans h2.2⟩
      simp only [List.cons_append, cnt_append]
      rw [cnt_cons id (editRef h k s).2 X, cnt_cons id (editRef h k s).2 (_ ++ X), cnt_append]
      omega
end

end TsVerif.C08
