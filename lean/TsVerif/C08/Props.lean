import TsVerif.C08.Lemmas
import TsVerif.C08.Acyclic
import TsVerif.C08.Concurrency
/-!
# C08 — Trees are persistent values: copies are isolated and safe across threads

> What is observable through one tree handle changes only through an edit applied to that handle:
> editing a copy, using any copy as the old tree of a re-parse, or deleting other copies never
> alters it, although structure is shared. Distinct copies may be edited, re-parsed, queried and
> deleted concurrently on different threads with the same results as sequentially: no shared node
> is written without exclusive ownership, no reference-count update is lost, and every shared
> node is freed exactly once after the last handle goes away.

## Clause map (phrase of the property text → theorems)

Marks: **proved** = kernel-checked statement about the reference-count heap model (`Model.lean`), tied
to the C code by replaying every real operation on the model and comparing the predicted heap (counts,
sharing, payloads) with the dump of the real heap, and by the probes of `cunit_c08`; **partial (H)** =
proved under hypothesis H; **judged only** = no theorem, Lean judge on every real dump; **assumed**.

| # | phrase | theorems | mark |
|---|---|---|---|
| 1 | "what is observable through one tree handle changes only through an edit applied to that handle" | `persistence` (c) = `observation_stable`: over ANY history, a handle that is neither edited nor deleted keeps its root and its whole unfolded tree; `observation_defined` / `unfold_total` (the observation exists in every valid acyclic state, so the statement is not empty); `persistence_from_empty` (the hypotheses hold for every family of handles that descends from parses) | proved; "observable" = `unfold` (payload + children, recursively); the payload is abstract (`D` = all node fields), the judge normalises the real dump (drops `ref_count`, address, and one scanner-only bit) |
| 2 | "editing a copy … never alters it" | `edit_isolated` (every edit, any visited set, incl. clone and inline promotion), `copy_isolated`, `copy_root` | proved |
| 3 | "using any copy as the old tree of a re-parse … never alters it" | `reparse_isolated`, `rc_invariant_reparse` | **partial (H = the parser's ownership contract)**: a re-parse is an abstract build in which "reuse = retain, everything else is a fresh cell"; that the real parser never WRITES into a reused node (`ts_parser__shift` flag flip, `breakdown_*`, balancing) is not modelled — **judged only** (role / breakdown histories, wave 5/6 seeds) |
| 4 | "deleting other copies never alters it" | `delete_isolated` (the whole release cascade), `rc_invariant_delete` | proved |
| 5 | "although structure is shared" | no theorem assumes unshared structure; `decide` examples with a shared cell (`Props.lean`, `Persistence.lean`) | proved (non-vacuity) |
| 6 | "distinct copies may be edited, re-parsed, queried and deleted concurrently on different threads with the same results as sequentially" | `interleaving_eq_sequential`, `accesses_commute` (Concurrency.lean): every interleaving of two threads' access sequences with independent cross pairs equals "A then B" in final heap and in everything each thread reads; `interleaving_eq_sequential_counts` | **partial (H = independence of the cross pairs)**; round 11 (Round11.lean) derives part of H: `edit_footprint_owned` / `editRef_footprint` (the plain-write footprint `editWrites` of a whole `ts_tree_edit` — every cell rewritten in place, along any visited set — contains no cell reachable from another handle, and every such cell keeps children and payload), `edit_writes_indep` (so every `write` of an edit is `indep` of every access another thread makes to a cell reachable from its own handle), `delete_footprint_owned` / `release_cellframe` (the release cascade frees / changes no cell reachable from another handle), `copy_footprint_owned`, and H discharged completely for copy‖copy (`copy_accesses`, `copy_copy_interleaving`).  Still not derived: the full ordered small-step access sequences of edit / delete (reads, `dec`/`dec` and `inc`/`dec` on a shared count, which are not `indep`) — **judged only**: 2–16 threads vs sequential, equal results |
| 7 | "no shared node is written without exclusive ownership" | `writes_exclusive`, `make_mut_result`, `make_mut_never_mutates_shared` (the cell handed to the writer has count 1 and no other reference at all; every pre-existing cell keeps children and payload) | proved for `ts_subtree_make_mut`, the only writer in the model; the other `ref_count == 1` licences (`ts_subtree_compress`, `ts_parser__balance_subtree`) are **judged only** (seed C08-r2); probe `mm` on the real function |
| 8 | "no reference-count update is lost" | `rc_invariant` (any history: count = number of owners for every id), `no_lost_update_counts`, `interleaving_eq_sequential_counts` | proved; concurrency part **assumed**: `atomic_inc/dec` are atomic and sequentially consistent (probed with 16 threads; memory order tied at token level) |
| 9 | "every shared node is freed exactly once after the last handle goes away" | `heap_empty_after_last_delete` (no live cell once no handle is left, via `acyclic_invariant`), `persistence` (a) = `reachable_live` (nothing reachable is freed early), `no_dangling_no_garbage`, `freed_never_reused_edit/_release` (a freed id never becomes live again: no confusion of a second free with a new cell) | proved (model); "exactly once" on the real heap **judged**: poisoning allocator aborts on a free of a non-live block, balance 0 at the end |
| 10 | quantifier: "all histories of copy/edit/re-parse/query/delete over a family of handles descending from one parse, all interleavings … 2..16 threads" | histories: `Op` lists of any length from any valid state / from `State.empty`; query and walk are reads (no `Op`, `read` accesses in Concurrency.lean); threads: 6 | proved for histories; threads see 6 |

## Gaps found when re-reading the statements against the text

* 3, 6 and the second half of 7 are the places where the English says more than the theorems: the
  parser as a writer, whole operations as access sequences, and the writers other than `make_mut`.  All
  three are covered by the judge on real runs only.
* `observation_stable` was conditional on `unfold … = some t` with no proof that such `t` exists; closed
  in this pass (`unfold_total`, `observation_defined`).  `persistence` assumed `SWF s` without showing
  it reachable from a parse; closed (`swf_empty`, `persistence_from_empty`).
* `Send/Sync` declarations of the Rust wrappers and real memory ordering are not modelled (assumed).

## Theorem index by clause (older table)

Statements are about the heap model of `Model.lean` (`State` = cells with counts + tree handles).
`SWF s` is the reference-count invariant: for **every** id, the stored count (0 for a freed or
never allocated id) equals the number of references to it — handle roots plus child links of live
cells — and live cells have a positive count.  Consequences: no dangling reference, no lost or
spurious count.

| clause | theorem |
|---|---|
| **the property in one statement**, by induction over any history of operations: valid state, nothing reachable freed, untouched handles observe the same tree | `persistence` (Persistence.lean: `reachable_live`, `make_mut_never_mutates_shared`, `observation_stable`) |
| no reference-count update is lost (copy) | `rc_invariant_copy` |
| … (edit: make_mut / clone / inline promotion along any visited set) | `rc_invariant_edit` (from `editRef_ok`) |
| no shared node is written without exclusive ownership | `writes_exclusive`: the in-place branch of `make_mut` is taken only for a cell whose single reference is the one being edited — no other handle, no cell links to it; `make_mut_result`: otherwise a fresh cell with count 1 and the same children/payload is written instead and the original keeps all its other owners |
| every shared node is freed exactly once / never reused | `freed_never_reused_edit`, `freed_never_reused_release`: a freed id stays freed under every operation (ids are never recycled, so a second free of the same cell cannot be confused with a new one) |
| deleting other copies never alters it | `delete_isolated` (the whole cascade of `ts_subtree_release`), `rc_invariant_delete` |
| editing a copy never alters what another handle observes | `edit_isolated` (every edit, any visited set), `copy_isolated` |
| every shared node is freed exactly once after the last handle goes away | `heap_empty_after_last_delete` (after any history of copy/edit/re-parse/delete that leaves no live handle, no cell is live), via `acyclic_invariant` (a height function decreasing along child links survives every operation: clones inherit the height, promoted leaves get 0, built nodes 1 + Σ children — Acyclic.lean) and `rc_invariant`; `no_dangling_no_garbage`; freed ids are never reused (`freed_never_reused_*`) |
| using any copy as the old tree of a re-parse never alters it | `reparse_isolated`, `rc_invariant_reparse` (re-parse as an abstract build with the ownership contract "reuse = retain, everything else is a fresh cell"; which subtrees are reused is not modelled) |
| concurrent use = sequential use; no reference-count update is lost | `interleaving_eq_sequential_counts`, `no_lost_update_counts`: the only accesses that operations on distinct handles share are atomic count updates (all other writes go to exclusively owned cells: `writes_exclusive` + isolation theorems), and every interleaving of those equals the sequential order; tied syntactically to SEQ_CST atomics; `interleaving_eq_sequential` + `accesses_commute` (Concurrency.lean, round 3): small-step accesses `inc / dec / read / write / free`; two accesses of different threads are independent if they concern different cells, or are two increments, or a read against a count update; independent accesses commute (same heap cell by cell, same returned values incl. the count an `atomic_dec` returns), and **every** interleaving of two threads' sequences with independent cross pairs equals "thread A then thread B" in final heap and in everything each thread observes.  Writes and frees only concern exclusively owned cells (`writes_exclusive`, isolation theorems), so their cross pairs are on different cells.  Two `dec`s of the same cell by different threads are the one dependent pair: the heap does not depend on their order (`interleaving_eq_sequential_counts`), only *which* thread reads 0 and frees does.  OPEN: deriving the independence hypothesis for the access sequences of two whole API operations inside Lean (needs the operations themselves in small-step form); judged by threaded-vs-sequential runs |
-/
namespace TsVerif.C08

variable {D : Type}

/-- The reference-count invariant of a state. -/
def SWF (s : State D) : Prop := WF s.heap (rootsOf s.handles)

theorem rootsOf_append_some (l : List (Option (Ref D))) (r : Ref D) : rootsOf (l ++ [some r]) = rootsOf l ++ [r] := by
  simp [rootsOf, List.filterMap_append]

theorem root_mem {s : State D} {h : Nat} {r : Ref D} (hr : s.root h = some r) : r ∈ rootsOf s.handles := by
  unfold State.root at hr
  split at hr
  · rename_i r' heq
    cases hr
    unfold rootsOf
    rw [List.mem_filterMap]
    exact ⟨some r, List.mem_of_getElem? heq, rfl⟩
  · cases hr

@[simp] theorem rootsOf_nil : rootsOf ([] : List (Option (Ref D))) = [] := rfl
@[simp] theorem rootsOf_cons_some (r : Ref D) (l : List (Option (Ref D))) : rootsOf (some r :: l) = r :: rootsOf l := rfl
@[simp] theorem rootsOf_cons_none (l : List (Option (Ref D))) : rootsOf (none :: l) = rootsOf l := rfl

/-- Replacing the root stored in handle `k`: the old root leaves the owner list, the new one joins. -/
theorem cnt_rootsOf_set (a : Nat) : ∀ (l : List (Option (Ref D))) (k : Nat) (r : Ref D) (o : Option (Ref D)),
    l[k]? = some (some r) →
    cnt a (rootsOf (l.set k o)) + cnt a [r] = cnt a (rootsOf l) + cnt a (rootsOf [o])
  | [], k, r, o, h => by simp at h
  | x :: l, 0, r, o, h => by
    simp at h; subst h
    cases o with
    | none =>
      simp only [List.set_cons_zero, rootsOf_cons_none, rootsOf_cons_some, rootsOf_nil, cnt_nil]
      rw [cnt_cons a r (rootsOf l)]; omega
    | some r' =>
      simp only [List.set_cons_zero, rootsOf_cons_some, rootsOf_nil]
      rw [cnt_cons a r (rootsOf l), cnt_cons a r' (rootsOf l)]; omega
  | x :: l, k + 1, r, o, h => by
    have ih := cnt_rootsOf_set a l k r o (by simpa using h)
    cases x with
    | none => simpa using ih
    | some rx =>
      simp only [List.set_cons_succ, rootsOf_cons_some]
      rw [cnt_cons a rx (rootsOf (l.set k o)), cnt_cons a rx (rootsOf l)]
      omega

/-- `rc_invariant_copy`: `ts_tree_copy` keeps the invariant (the new handle owns one more count
of the shared root). -/
theorem rc_invariant_copy (s : State D) (h : Nat) (hw : SWF s) : SWF (s.copy h) := by
  unfold State.copy
  cases hr : s.root h with
  | none => exact hw
  | some r =>
    simp only [SWF]
    have hmem := root_mem hr
    have hlive : ∀ id, r = .ptr id → ∃ c, cellAt s.heap id = some c := by
      intro id hid
      apply WF.live hw
      have := cnt_pos_of_mem (hid ▸ hmem)
      omega
    have := retain_wf r hw hlive
    refine wf_perm this (fun a => ?_)
    rw [rootsOf_append_some, cnt_append, cnt_cons a r]
    omega

/-- `rc_invariant_edit`: `ts_tree_edit` keeps the invariant whatever set of nodes the edit visits
(`spec`), whichever of them are shared, inline or promoted. -/
theorem rc_invariant_edit (s : State D) (h : Nat) (spec : EditSpec D) (hw : SWF s) : SWF (s.edit h spec) := by
  unfold State.edit
  cases hr : s.root h with
  | none => exact hw
  | some r =>
    simp only [SWF]
    have hk : s.handles[h]? = some (some r) := by
      unfold State.root at hr
      split at hr
      · rename_i r' heq; cases hr; exact heq
      · cases hr
    -- view the edited handle's root as the owned reference, the other handles as the context
    have h0 : WF s.heap (r :: rootsOf (s.handles.set h none)) :=
      wf_perm hw (fun a => by
        have := cnt_rootsOf_set a s.handles h r none hk
        simp only [rootsOf_cons_none, rootsOf_nil, cnt_nil] at this
        rw [cnt_cons a r]; omega)
    have h1 := (editRef_ok spec s.heap r _ h0).1
    refine wf_perm h1 (fun a => ?_)
    have e1 := cnt_rootsOf_set a s.handles h r none hk
    have e2 := cnt_rootsOf_set a s.handles h r (some (editRef s.heap r spec).2) hk
    simp only [rootsOf_cons_none, rootsOf_cons_some, rootsOf_nil, cnt_nil] at e1 e2
    rw [cnt_cons a (editRef s.heap r spec).2]; omega

/-- Non-vacuity: a two-cell heap with one handle satisfies the invariant. -/
example : SWF ({ heap := [some { rc := 1, kids := [], data := 0 }, some { rc := 1, kids := [.ptr 0, .inl 7], data := 1 }],
                 handles := [some (.ptr 1)] } : State Nat) := by
  refine ⟨fun id => ?_, ?_⟩
  · match id with
    | 0 => rfl
    | 1 => rfl
    | n + 2 => simp [rcOf, cellAt, rootsOf, cnt, kidsOf]
  · intro id c hc
    match id with
    | 0 => simp [cellAt] at hc; subst hc; simp
    | 1 => simp [cellAt] at hc; subst hc; simp
    | n + 2 => simp [cellAt] at hc

/-- `writes_exclusive`: if the reference being edited points to a cell with count 1 (the only case
in which `ts_subtree_make_mut` returns the cell itself for writing), then under the invariant that
reference is the *only* one: no other owner in the context (other handles, other pending
references) and no child link of any live cell points to it. -/
theorem writes_exclusive {h : Heap D} {X : List (Ref D)} {i : Nat} (hw : WF h (.ptr i :: X))
    (h1 : rcOf h i = 1) : cnt i X = 0 ∧ cnt i (kidsOf h) = 0 ∧ (makeMut h i) = (h, i) := by
  have := hw.count i
  simp only [cnt_cons_ptr, if_true] at this
  refine ⟨by omega, by omega, ?_⟩
  unfold makeMut
  cases hc : cellAt h i with
  | none => rfl
  | some c =>
    have : c.rc = 1 := by unfold rcOf at h1; rw [hc] at h1; exact h1
    simp [this]

/-- `make_mut_result`: in every case `make_mut` hands back a cell with count 1, the same children
and payload, and the invariant holds with the caller owning that cell instead of the argument;
when the argument was shared (`rc ≥ 2`) it is left untouched except for one count. -/
theorem make_mut_result {h : Heap D} {X : List (Ref D)} {i : Nat} (hw : WF h (.ptr i :: X)) :
    WF (makeMut h i).1 (.ptr (makeMut h i).2 :: X) ∧
    ∃ c c', cellAt h i = some c ∧ cellAt (makeMut h i).1 (makeMut h i).2 = some c' ∧
      c'.rc = 1 ∧ c'.kids = c.kids ∧ c'.data = c.data := makeMut_wf hw

/-- `freed_never_reused_edit`: no edit makes a freed (or never allocated) id below the heap's
length live again. -/
theorem freed_never_reused_edit (spec : EditSpec D) (h : Heap D) (r : Ref D) (X : List (Ref D))
    (hw : WF h (r :: X)) (j : Nat) (hj : j < h.length) (hd : cellAt h j = none) :
    cellAt (editRef h r spec).1 j = none := (editRef_ok spec h r X hw).2.2 j hj hd

/-- `freed_never_reused_release`: `ts_subtree_release` (decrement, explicit stack, cascade) never
makes a freed id live again and never shrinks the id space. -/
theorem freed_never_reused_release (h : Heap D) (r : Ref D) (j : Nat) (hj : j < h.length)
    (hd : cellAt h j = none) : cellAt (release h r) j = none := (deadMono_release h r).2 j hj hd


/-! ## delete, whole histories, isolation -/

theorem root_handles {s : State D} {h : Nat} {r : Ref D} (hr : s.root h = some r) : s.handles[h]? = some (some r) := by
  unfold State.root at hr
  split at hr
  · rename_i r' heq; cases hr; exact heq
  · cases hr

theorem root_set_other (s : State D) (h h' : Nat) (o : Option (Ref D)) (hne : h' ≠ h) (heap : Heap D) :
    State.root { heap := heap, handles := s.handles.set h o } h' = s.root h' := by
  unfold State.root
  simp only
  rw [List.getElem?_set_ne (Ne.symm hne)]

theorem mem_rootsOf_set_other {l : List (Option (Ref D))} {h h' : Nat} {r' : Ref D} (o : Option (Ref D))
    (hne : h' ≠ h) (hr : l[h']? = some (some r')) : r' ∈ rootsOf (l.set h o) := by
  unfold rootsOf
  rw [List.mem_filterMap]
  refine ⟨some r', ?_, rfl⟩
  apply List.mem_of_getElem? (i := h')
  rw [List.getElem?_set_ne (Ne.symm hne)]
  exact hr

/-- The owners of a state, seen from handle `h`: its root first, then everybody else. -/
theorem swf_split {s : State D} {h : Nat} {r : Ref D} (hw : SWF s) (hr : s.root h = some r) :
    WF s.heap (r :: rootsOf (s.handles.set h none)) :=
  wf_perm hw (fun a => by
    have := cnt_rootsOf_set a s.handles h r none (root_handles hr)
    simp only [rootsOf_cons_none, rootsOf_nil, cnt_nil] at this
    rw [cnt_cons a r]; omega)

/-- `rc_invariant_delete`: `ts_tree_delete` — one decrement and the whole cascade of
`ts_subtree_release` with its explicit stack — keeps the invariant: afterwards every remaining
cell's count is exactly its number of owners, every cell without owners has been freed, and no
freed cell is still referenced. -/
theorem rc_invariant_delete (s : State D) (h : Nat) (hw : SWF s) : SWF (s.delete h) := by
  unfold State.delete
  cases hr : s.root h with
  | none => exact hw
  | some r => exact release_wf r (swf_split hw hr)

/-- API operations on tree handles. -/
inductive Op (D : Type) where
  | copy (h : Nat)
  | edit (h : Nat) (spec : EditSpec D)
  | delete (h : Nat)
  | reparse (spec : BuildSpec D)

def State.apply (s : State D) : Op D → State D
  | .copy h => s.copy h
  | .edit h spec => s.edit h spec
  | .delete h => s.delete h
  | .reparse spec => s.reparse spec

/-- `rc_invariant_reparse`: a (re-)parse — any build that reuses existing subtrees by retaining them
and otherwise creates fresh cells — keeps the invariant, with the result as a new handle. -/
theorem rc_invariant_reparse (s : State D) (spec : BuildSpec D) (hw : SWF s) : SWF (s.reparse spec) := by
  unfold State.reparse
  by_cases hl : reusedLive s.heap spec = true
  · simp only [hl, if_true]
    have := (build_ok spec s.heap _ hw hl).1
    simp only [SWF]
    refine wf_perm this (fun a => ?_)
    rw [rootsOf_append_some, cnt_append, cnt_cons a (build s.heap spec).2]
    omega
  · simp only [hl]; exact hw

/-- `reparse_isolated`: using any tree as the old tree of a re-parse (reusing any of its subtrees)
changes no existing handle's root and nothing observable through it. -/
theorem reparse_isolated (s : State D) (spec : BuildSpec D) (h' : Nat) (r' : Ref D) (hr' : s.root h' = some r') :
    (s.reparse spec).root h' = some r' ∧
    ∀ (f : Nat) (t : OTree D), unfold f s.heap r' = some t → unfold f (s.reparse spec).heap r' = some t := by
  unfold State.reparse
  by_cases hl : reusedLive s.heap spec = true
  · simp only [hl, if_true]
    refine ⟨?_, fun f t hu => ?_⟩
    · have hk := root_handles hr'
      unfold State.root
      simp only
      have hlt : h' < s.handles.length := by
        rcases Nat.lt_or_ge h' s.handles.length with h1 | h1
        · exact h1
        · rw [List.getElem?_eq_none h1] at hk; cases hk
      rw [List.getElem?_append_left hlt, hk]
    · -- every existing cell keeps children and payload: nothing to see
      have hext : Ext s.heap (build s.heap spec).1 := build_ext spec s.heap
      exact unfold_ext hext f r' t hu
  · simp only [hl]; exact ⟨hr', fun _ _ hu => hu⟩

/-- `rc_invariant`: the invariant holds after every history of copies, edits, deletes and re-parses. -/
theorem rc_invariant (ops : List (Op D)) : ∀ (s : State D), SWF s → SWF (ops.foldl State.apply s) := by
  induction ops with
  | nil => intro s hw; exact hw
  | cons op ops ih =>
    intro s hw
    simp only [List.foldl_cons]
    apply ih
    cases op with
    | copy h => exact rc_invariant_copy s h hw
    | edit h spec => exact rc_invariant_edit s h spec hw
    | delete h => exact rc_invariant_delete s h hw
    | reparse spec => exact rc_invariant_reparse s spec hw

/-- Consequences of the invariant in any reachable state: no dangling root or child link, and no
live cell without an owner (nothing leaked, nothing freed too early). -/
theorem no_dangling_no_garbage {s : State D} (hw : SWF s) :
    (∀ i, Ref.ptr i ∈ s.refs → ∃ c, cellAt s.heap i = some c) ∧
    (∀ i c, cellAt s.heap i = some c → 0 < cnt i s.refs) := by
  refine ⟨fun i hi => ?_, fun i c hc => ?_⟩
  · apply hw.live
    have := cnt_pos_of_mem hi
    simp only [State.refs, cnt_append] at this
    exact this
  · have h1 := hw.pos i c hc
    have h2 := hw.count i
    have h3 : rcOf s.heap i = c.rc := by unfold rcOf; rw [hc]
    simp only [State.refs, cnt_append]
    omega

/-- `edit_isolated`: an edit applied to handle `h` changes neither the root stored in another
handle `h'` nor anything observable through it — for every edit (any visited set), although
structure is shared. -/
theorem edit_isolated (s : State D) (h h' : Nat) (spec : EditSpec D) (hw : SWF s) (hne : h' ≠ h)
    (r' : Ref D) (hr' : s.root h' = some r') :
    (s.edit h spec).root h' = some r' ∧
    ∀ (f : Nat) (t : OTree D), unfold f s.heap r' = some t → unfold f (s.edit h spec).heap r' = some t := by
  unfold State.edit
  cases hr : s.root h with
  | none => exact ⟨hr', fun _ _ hu => hu⟩
  | some r =>
    simp only
    refine ⟨by rw [root_set_other s h h' _ hne]; exact hr', ?_⟩
    intro f t hu
    exact editRef_frame spec s.heap r _ (swf_split hw hr) r'
      (mem_rootsOf_set_other none hne (root_handles hr')) f t hu

/-- `delete_isolated`: deleting handle `h` (with every free it triggers) changes nothing that is
observable through another handle `h'`. -/
theorem delete_isolated (s : State D) (h h' : Nat) (hw : SWF s) (hne : h' ≠ h)
    (r' : Ref D) (hr' : s.root h' = some r') :
    (s.delete h).root h' = some r' ∧
    ∀ (f : Nat) (t : OTree D), unfold f s.heap r' = some t → unfold f (s.delete h).heap r' = some t := by
  unfold State.delete
  cases hr : s.root h with
  | none => exact ⟨hr', fun _ _ hu => hu⟩
  | some r =>
    simp only
    refine ⟨by rw [root_set_other s h h' _ hne]; exact hr', ?_⟩
    intro f t hu
    exact release_frame r (swf_split hw hr) r' (mem_rootsOf_set_other none hne (root_handles hr')) f t hu

/-- `copy_isolated`: copying changes counts only. -/
theorem copy_isolated (s : State D) (h : Nat) (r' : Ref D) (f : Nat) (t : OTree D)
    (hu : unfold f s.heap r' = some t) : unfold f (s.copy h).heap r' = some t := by
  unfold State.copy
  cases hr : s.root h with
  | none => exact hu
  | some r => exact unfold_ext (ext_retain s.heap r) f r' t hu

/-- Non-vacuity of the isolation theorems: two handles share a cell; editing one of them in a way
that rewrites the shared cell leaves the other one's observation intact (and really clones). -/
example :
    let s : State Nat := { heap := [some { rc := 2, kids := [.inl 5], data := 1 }], handles := [some (.ptr 0), some (.ptr 0)] }
    let s' := s.edit 0 (.visit 9 false [.visit 6 false []])
    s'.root 0 = some (.ptr 1) ∧ s'.root 1 = some (.ptr 0) ∧
    cellAt s'.heap 0 = some { rc := 1, kids := [.inl 5], data := 1 } ∧
    cellAt s'.heap 1 = some { rc := 1, kids := [.inl 6], data := 9 } := by
  decide


/-! ## Concurrency: the shared accesses of operations on distinct handles -/

/-- `interleaving_eq_sequential_counts` (the part of `interleaving_eq_sequential` that concerns
shared state): operations on *distinct* handles touch common cells only through atomic count
updates (`writes_exclusive`, `edit_isolated`, `delete_isolated`: every other write goes to a cell
that no other handle can reach).  For those accesses **every** interleaving of the threads'
sequences `A` and `B` — any permutation of `A ++ B`, executed under sequential consistency — leaves
every cell in exactly the state the sequential execution "`A` then `B`" produces: no update is lost.
(Hypotheses: the cells are live and no count is driven below zero, which `rc_invariant` guarantees
for the accesses real operations perform.) -/
theorem interleaving_eq_sequential_counts (h : Heap D) (A B inter : List Acc) (hp : inter.Perm (A ++ B))
    (hl : ∀ a, a ∈ A ++ B → (cellAt h a.id).isSome = true) (hd : ∀ i, decsOf i (A ++ B) ≤ rcOf h i) (i : Nat) :
    cellAt (applyAll h inter) i = cellAt (applyAll (applyAll h A) B) i := by
  have := count_interleavings_agree hp.symm h hl hd i
  rw [← this]
  simp [applyAll, List.foldl_append]

/-- `no_lost_update_counts`: the closed form — after any such interleaving a cell's count is its
initial count plus the number of increments minus the number of decrements. -/
theorem no_lost_update_counts (h : Heap D) (accs : List Acc)
    (hl : ∀ a, a ∈ accs → (cellAt h a.id).isSome = true) (hd : ∀ i, decsOf i accs ≤ rcOf h i) (i : Nat) :
    rcOf (applyAll h accs) i + decsOf i accs = rcOf h i + incsOf i accs := (no_lost_update accs h hl hd).1 i

example : applyAll ([some { rc := 2, kids := [], data := 0 }] : Heap Nat) [.inc 0, .dec 0, .dec 0, .inc 0]
    = applyAll [some { rc := 2, kids := [], data := 0 }] [.dec 0, .dec 0, .inc 0, .inc 0] := by decide


/-! ## Acyclicity and the last handle -/

/-- The heap has no cycles: some height function decreases along every child link. -/
def Acyclic (s : State D) : Prop := ∃ f, Hgt s.heap f

theorem acyclic_copy (s : State D) (h : Nat) (ha : Acyclic s) : Acyclic (s.copy h) := by
  obtain ⟨f, hf⟩ := ha
  unfold State.copy
  cases hr : s.root h with
  | none => exact ⟨f, hf⟩
  | some r => exact ⟨f, hgt_kidsFrom (kidsFrom_retain s.heap r) hf⟩

theorem acyclic_delete (s : State D) (h : Nat) (ha : Acyclic s) : Acyclic (s.delete h) := by
  obtain ⟨f, hf⟩ := ha
  unfold State.delete
  cases hr : s.root h with
  | none => exact ⟨f, hf⟩
  | some r => exact ⟨f, hgt_kidsFrom (kidsFrom_release s.heap r) hf⟩

theorem acyclic_edit (s : State D) (h : Nat) (spec : EditSpec D) (hw : SWF s) (ha : Acyclic s) :
    Acyclic (s.edit h spec) := by
  obtain ⟨f, hf⟩ := ha
  unfold State.edit
  cases hr : s.root h with
  | none => exact ⟨f, hf⟩
  | some r =>
    have hw0 := swf_split hw hr
    have hrange : InRange s.heap r := by
      cases r with
      | inl d => trivial
      | ptr i =>
        obtain ⟨c, hc⟩ := hw0.live (id := i) (by simp [cnt]; omega)
        exact cellAt_lt hc
    obtain ⟨f', _, hf', _, _⟩ := editRef_hgt spec s.heap r _ f hw0 hf hrange
    exact ⟨f', hf'⟩

theorem acyclic_reparse (s : State D) (spec : BuildSpec D) (ha : Acyclic s) : Acyclic (s.reparse spec) := by
  obtain ⟨f, hf⟩ := ha
  unfold State.reparse
  by_cases hl : reusedLive s.heap spec = true
  · simp only [hl, if_true]
    obtain ⟨f', _, hf', _⟩ := build_hgt spec s.heap f hf hl
    exact ⟨f', hf'⟩
  · simp only [hl]; exact ⟨f, hf⟩

/-- `acyclic_invariant`: counting invariant and acyclicity together survive every history. -/
theorem acyclic_invariant (ops : List (Op D)) : ∀ (s : State D), SWF s → Acyclic s →
    SWF (ops.foldl State.apply s) ∧ Acyclic (ops.foldl State.apply s) := by
  induction ops with
  | nil => intro s hw ha; exact ⟨hw, ha⟩
  | cons op ops ih =>
    intro s hw ha
    simp only [List.foldl_cons]
    cases op with
    | copy h => exact ih _ (rc_invariant_copy s h hw) (acyclic_copy s h ha)
    | edit h spec => exact ih _ (rc_invariant_edit s h spec hw) (acyclic_edit s h spec hw ha)
    | delete h => exact ih _ (rc_invariant_delete s h hw) (acyclic_delete s h ha)
    | reparse spec => exact ih _ (rc_invariant_reparse s spec hw) (acyclic_reparse s spec ha)

/-- `heap_empty_after_last_delete` (= `freed_once`, second half): after **any** history of copies,
edits, re-parses and deletes that leaves no live handle, no cell is live — every shared node has
been freed (exactly once: ids are never reused, `freed_never_reused_*`) after the last handle went
away.  Nothing leaks from tree handles. -/
theorem heap_empty_after_last_delete (ops : List (Op D)) (s : State D) (hw : SWF s) (ha : Acyclic s)
    (hnone : rootsOf (ops.foldl State.apply s).handles = []) :
    ∀ i, cellAt (ops.foldl State.apply s).heap i = none := by
  obtain ⟨hw', ⟨f, hf⟩⟩ := acyclic_invariant ops s hw ha
  unfold SWF at hw'
  rw [hnone] at hw'
  exact empty_of_no_roots hw' hf

/-- Non-vacuity: the empty state (before the first parse) is well-formed and acyclic, and a first
parse is `reparse` with a spec that reuses nothing. -/
example : SWF ({ heap := [], handles := [] } : State Nat) ∧ Acyclic ({ heap := [], handles := [] } : State Nat) := by
  refine ⟨⟨fun id => by simp [rcOf, cellAt, rootsOf, cnt, kidsOf], fun id c hc => by simp [cellAt] at hc⟩,
    ⟨fun _ => 0, ⟨fun i c hc => by simp [cellAt] at hc, fun i c hc => by simp [cellAt] at hc⟩⟩⟩

end TsVerif.C08
