import TsVerif.C08.Lemmas
/-!
# C08 — small-step accesses of concurrent operations and their commutation

Operations on *distinct* tree handles running on different threads touch the shared heap through
these atomic accesses (sequential consistency is the tied assumption, see the check's atomic.h
obligations):

* `inc i` / `dec i` — `atomic_inc` / `atomic_dec` of a reference count; `dec` returns the new value
  (the thread that reads 0 frees the cell);
* `read i`        — read the immutable part (children, payload) of a cell;
* `write i …`     — rewrite children/payload of a cell — only ever done to a cell that the writing
                    thread owns exclusively (`writes_exclusive`, `edit_isolated`);
* `free i`        — give the cell back (after the thread's own `dec` returned 0).

`indep a b` is the syntactic independence of two accesses of different threads: different cells,
or two increments, or a read against anything that only changes the count.  Independent accesses
commute — same heap (cell by cell) and same values returned to each thread — and therefore every
interleaving of two threads' access sequences whose cross pairs are independent is equivalent to
running one thread after the other.
-/
namespace TsVerif.C08

variable {D : Type}

inductive SAcc (D : Type) where
  | inc (i : Nat)
  | dec (i : Nat)
  | read (i : Nat)
  | write (i : Nat) (kids : List (Ref D)) (data : D)
  | free (i : Nat)

def SAcc.cell : SAcc D → Nat
  | .inc i | .dec i | .read i | .write i _ _ | .free i => i

/-- What an access returns to its thread. -/
inductive Obs (D : Type) where
  | none
  | count (n : Nat)
  | cell (c : Option (List (Ref D) × D))

/-- Effect on the accessed cell. -/
def SAcc.eff : SAcc D → Option (Cell D) → Option (Cell D)
  | .inc _, c => c.map fun c => { c with rc := c.rc + 1 }
  | .dec _, c => c.map fun c => { c with rc := c.rc - 1 }
  | .read _, c => c
  | .write _ ks d, c => c.map fun c => { c with kids := ks, data := d }
  | .free _, _ => Option.none

/-- Value returned, as a function of the accessed cell *before* the access. -/
def SAcc.obs : SAcc D → Option (Cell D) → Obs D
  | .inc _, _ => .none
  | .dec _, c => .count (match c with | some c => c.rc - 1 | Option.none => 0)
  | .read _, c => .cell (c.map fun c => (c.kids, c.data))
  | .write _ _ _, _ => .none
  | .free _, _ => .none

/-- The concrete step on the list heap of `Model.lean`. -/
def sstep (h : Heap D) : SAcc D → Heap D × Obs D
  | .inc i => (incr h i, .none)
  | .dec i => (decr h i, .count (rcOf (decr h i) i))
  | .read i => (h, .cell ((cellAt h i).map fun c => (c.kids, c.data)))
  | .write i ks d =>
    (match cellAt h i with
     | some c => h.set i (some { c with kids := ks, data := d })
     | Option.none => h, .none)
  | .free i => (h.set i Option.none, .none)

/-- Every access is local: it changes (at most) its own cell, as `eff` says, and returns `obs`. -/
theorem sstep_local (h : Heap D) (a : SAcc D) :
    (∀ j, cellAt (sstep h a).1 j = if j = a.cell then a.eff (cellAt h j) else cellAt h j) ∧
    (sstep h a).2 = a.obs (cellAt h a.cell) := by
  cases a with
  | inc i =>
    refine ⟨fun j => ?_, rfl⟩
    simp only [sstep, SAcc.cell, SAcc.eff, incr]
    by_cases hji : j = i
    · subst hji
      cases hc : cellAt h j with
      | none => simp [setRc, hc]
      | some c => rw [cellAt_setRc_self _ _ _ hc]; simp
    · rw [cellAt_setRc_ne _ _ _ _ hji]; simp [hji]
  | dec i =>
    refine ⟨fun j => ?_, ?_⟩
    · simp only [sstep, SAcc.cell, SAcc.eff, decr]
      by_cases hji : j = i
      · subst hji
        cases hc : cellAt h j with
        | none => simp [setRc, hc]
        | some c => rw [cellAt_setRc_self _ _ _ hc]; simp
      · rw [cellAt_setRc_ne _ _ _ _ hji]; simp [hji]
    · simp only [sstep, SAcc.cell, SAcc.obs, decr, rcOf]
      cases hc : cellAt h i with
      | none => simp [setRc, hc]
      | some c => rw [cellAt_setRc_self _ _ _ hc]
  | read i => exact ⟨fun j => by simp [sstep, SAcc.eff], rfl⟩
  | write i ks d =>
    refine ⟨fun j => ?_, rfl⟩
    simp only [sstep, SAcc.cell, SAcc.eff]
    cases hc : cellAt h i with
    | none =>
      simp only
      by_cases hji : j = i
      · subst hji; simp [hc]
      · simp [hji]
    | some c =>
      simp only
      rw [cellAt_set _ _ _ _ (cellAt_lt hc)]
      by_cases hji : j = i
      · subst hji; simp [hc]
      · simp [hji]
  | free i =>
    refine ⟨fun j => ?_, rfl⟩
    simp only [sstep, SAcc.cell, SAcc.eff]
    by_cases hi : i < h.length
    · rw [cellAt_set _ _ _ _ hi]
      by_cases hji : j = i <;> simp [hji]
    · rw [List.set_eq_of_length_le (Nat.le_of_not_lt hi)]
      by_cases hji : j = i
      · subst hji; simp [cellAt_ge h j (Nat.le_of_not_lt hi)]
      · simp [hji]

/-- Heaps are compared cell by cell (freed and never-allocated ids look the same). -/
def HeapEq (h h' : Heap D) : Prop := ∀ j, cellAt h j = cellAt h' j

theorem HeapEq.refl (h : Heap D) : HeapEq h h := fun _ => rfl
theorem HeapEq.symm {h h' : Heap D} (e : HeapEq h h') : HeapEq h' h := fun j => (e j).symm
theorem HeapEq.trans {a b c : Heap D} (e1 : HeapEq a b) (e2 : HeapEq b c) : HeapEq a c := fun j => (e1 j).trans (e2 j)

theorem sstep_congr {h h' : Heap D} (e : HeapEq h h') (a : SAcc D) :
    HeapEq (sstep h a).1 (sstep h' a).1 ∧ (sstep h a).2 = (sstep h' a).2 := by
  have l := sstep_local h a
  have l' := sstep_local h' a
  refine ⟨fun j => ?_, ?_⟩
  · rw [l.1 j, l'.1 j, e j]
  · rw [l.2, l'.2, e a.cell]

/-- Independence of two accesses made by different threads. -/
def sameCellOk : SAcc D → SAcc D → Prop
  | .inc _, .inc _ => True
  | .read _, .read _ => True
  | .read _, .inc _ | .inc _, .read _ => True
  | .read _, .dec _ | .dec _, .read _ => True
  | _, _ => False

def indep (a b : SAcc D) : Prop := a.cell ≠ b.cell ∨ sameCellOk a b

theorem indep_symm {a b : SAcc D} (h : indep a b) : indep b a := by
  rcases h with h | h
  · exact Or.inl (fun e => h e.symm)
  · right; cases a <;> cases b <;> simp_all [sameCellOk]

/-- `accesses_commute`: two independent accesses give the same heap and return the same values in
either order. -/
theorem accesses_commute (h : Heap D) (a b : SAcc D) (hi : indep a b) :
    HeapEq (sstep (sstep h a).1 b).1 (sstep (sstep h b).1 a).1 ∧
    (sstep h a).2 = (sstep (sstep h b).1 a).2 ∧ (sstep (sstep h a).1 b).2 = (sstep h b).2 := by
  have la := sstep_local h a
  have lb := sstep_local h b
  have lab := sstep_local (sstep h a).1 b
  have lba := sstep_local (sstep h b).1 a
  by_cases hc : a.cell = b.cell
  · -- same cell: only counts / reads are involved
    have hsame : sameCellOk a b := by
      rcases hi with h1 | h1
      · exact absurd hc h1
      · exact h1
    refine ⟨fun j => ?_, ?_, ?_⟩
    · rw [lab.1 j, lba.1 j, la.1 j, lb.1 j]
      by_cases hja : j = a.cell
      · have hjb : j = b.cell := hja.trans hc
        simp only [hjb, hc, if_true]
        cases a <;> cases b <;> simp_all [SAcc.eff, sameCellOk] <;> (cases cellAt h _ <;> simp)
      · have hjb : ¬ j = b.cell := fun e => hja (e.trans hc.symm)
        simp [hja, hjb]
    · rw [la.2, lba.2, lb.1 a.cell]
      simp only [hc, if_true]
      cases a <;> cases b <;> simp_all [SAcc.eff, SAcc.obs, sameCellOk] <;> (cases cellAt h _ <;> simp)
    · rw [lab.2, lb.2, la.1 b.cell]
      simp only [hc, if_true]
      cases a <;> cases b <;> simp_all [SAcc.eff, SAcc.obs, sameCellOk] <;> (cases cellAt h _ <;> simp)
  · -- different cells
    have hne := hc
    have hne' : ¬ b.cell = a.cell := fun e => hne e.symm
    refine ⟨fun j => ?_, ?_, ?_⟩
    · rw [lab.1 j, lba.1 j, la.1 j, lb.1 j]
      by_cases hja : j = a.cell <;> by_cases hjb : j = b.cell
      · exact absurd (hja.symm.trans hjb) hne
      · subst hja; simp [hne]
      · subst hjb; simp [hne']
      · simp [hja, hjb]
    · rw [la.2, lba.2, lb.1 a.cell]; simp [hne]
    · rw [lab.2, lb.2, la.1 b.cell]; simp [hne']


/-! ### sequences: every interleaving is equivalent to running one thread after the other -/

/-- Run a sequence of accesses, collecting what each returns. -/
def srun (h : Heap D) : List (SAcc D) → Heap D × List (Obs D)
  | [] => (h, [])
  | a :: rest =>
    let r := sstep h a
    let rr := srun r.1 rest
    (rr.1, r.2 :: rr.2)

/-- Run an interleaving: each access is tagged with its thread (`true` = thread A); returns the heap
and the values returned to A and to B, in each thread's own order. -/
def srunT (h : Heap D) : List (Bool × SAcc D) → Heap D × List (Obs D) × List (Obs D)
  | [] => (h, [], [])
  | (t, a) :: rest =>
    let r := sstep h a
    let rr := srunT r.1 rest
    if t then (rr.1, r.2 :: rr.2.1, rr.2.2) else (rr.1, rr.2.1, r.2 :: rr.2.2)

def projT (t : Bool) (S : List (Bool × SAcc D)) : List (SAcc D) := (S.filter (·.1 == t)).map (·.2)

theorem projT_cons_same (t : Bool) (a : SAcc D) (S : List (Bool × SAcc D)) :
    projT t ((t, a) :: S) = a :: projT t S := by simp [projT]

theorem projT_cons_other (t : Bool) (a : SAcc D) (S : List (Bool × SAcc D)) :
    projT t ((!t, a) :: S) = projT t S := by cases t <;> simp [projT]

theorem srun_congr : ∀ (A : List (SAcc D)) {h h' : Heap D}, HeapEq h h' →
    HeapEq (srun h A).1 (srun h' A).1 ∧ (srun h A).2 = (srun h' A).2
  | [], h, h', e => ⟨e, rfl⟩
  | a :: A, h, h', e => by
    have c := sstep_congr e a
    have ih := srun_congr A c.1
    simp only [srun]
    exact ⟨ih.1, by rw [c.2, ih.2]⟩

/-- An access that is independent of every access of a sequence can be moved across it. -/
theorem move_across : ∀ (A : List (SAcc D)) (h : Heap D) (b : SAcc D), (∀ a, a ∈ A → indep a b) →
    HeapEq (sstep (srun h A).1 b).1 (srun (sstep h b).1 A).1 ∧
    (sstep (srun h A).1 b).2 = (sstep h b).2 ∧ (srun h A).2 = (srun (sstep h b).1 A).2
  | [], h, b, _ => ⟨HeapEq.refl _, rfl, rfl⟩
  | a :: A, h, b, hi => by
    have hab := accesses_commute h a b (hi a List.mem_cons_self)
    have ih := move_across A (sstep h a).1 b (fun x hx => hi x (List.mem_cons_of_mem _ hx))
    have cg := srun_congr A hab.1
    simp only [srun]
    refine ⟨ih.1.trans cg.1, ?_, ?_⟩
    · rw [ih.2.1, hab.2.2]
    · rw [hab.2.1, ih.2.2, cg.2]

/-- `interleaving_eq_sequential`: for **every** interleaving `S` of the access sequences of two
threads whose cross pairs are independent — different cells, or count updates / reads of the same
cell — the final heap equals (cell by cell) the heap after "thread A, then thread B", and each thread
is returned exactly the values it would get in that sequential execution (in particular every
`atomic_dec` returns the same count, so the same thread frees each cell). -/
theorem interleaving_eq_sequential : ∀ (S : List (Bool × SAcc D)) (h : Heap D),
    (∀ a b, (true, a) ∈ S → (false, b) ∈ S → indep a b) →
    HeapEq (srunT h S).1 (srun (srun h (projT true S)).1 (projT false S)).1 ∧
    (srunT h S).2.1 = (srun h (projT true S)).2 ∧
    (srunT h S).2.2 = (srun (srun h (projT true S)).1 (projT false S)).2
  | [], h, _ => ⟨HeapEq.refl _, rfl, rfl⟩
  | (true, a) :: S, h, hi => by
    have ih := interleaving_eq_sequential S (sstep h a).1
      (fun x y hx hy => hi x y (List.mem_cons_of_mem _ hx) (List.mem_cons_of_mem _ hy))
    have p1 : projT true ((true, a) :: S) = a :: projT true S := projT_cons_same true a S
    have p2 : projT false ((true, a) :: S) = projT false S := projT_cons_other false a S
    rw [p1, p2]
    simp only [srunT, srun, if_true]
    exact ⟨ih.1, by rw [ih.2.1], ih.2.2⟩
  | (false, b) :: S, h, hi => by
    have ih := interleaving_eq_sequential S (sstep h b).1
      (fun x y hx hy => hi x y (List.mem_cons_of_mem _ hx) (List.mem_cons_of_mem _ hy))
    have hind : ∀ a, a ∈ projT true S → indep a b := by
      intro a ha
      simp only [projT, List.mem_map, List.mem_filter] at ha
      obtain ⟨⟨t, a'⟩, ⟨hm, ht⟩, rfl⟩ := ha
      have : t = true := by simpa using ht
      subst this
      exact hi a' b (List.mem_cons_of_mem _ hm) List.mem_cons_self
    have mv := move_across (projT true S) h b hind
    have cg := srun_congr (projT false S) mv.1
    have p1 : projT true ((false, b) :: S) = projT true S := projT_cons_other true b S
    have p2 : projT false ((false, b) :: S) = b :: projT false S := projT_cons_same false b S
    rw [p1, p2]
    simp only [srunT, srun, Bool.false_eq_true, if_false]
    refine ⟨ih.1.trans cg.1.symm, ?_, ?_⟩
    · rw [ih.2.1, ← mv.2.2]
    · rw [mv.2.1, ih.2.2, cg.2]

end TsVerif.C08
