import TsVerif.C08.Model
import TsVerif.C10.Model
import Std.Data.HashMap
/-!
# C08 — loading real heaps from dumps, the judges, and the edit specification

A *real state* is the set of dumps (`dump_tree`) of every live tree handle; cells are identified
by their address, `ref_count` is what the runtime stores.  `loadState` turns it into a
`State NodeData` of the model (payload = every dumped field except `ref_count` and the address).
-/
namespace TsVerif.C08
open TsVerif TsGen

/-- Payload: the dumped node without what the heap model tracks itself.
`has_external_scanner_state_change` is dropped as well: `ts_subtree_edit` leaves it uninitialised
when it promotes an inline leaf to a heap leaf (subtree.c, the `ts_subtree_pool_allocate` branch),
so its dumped value is whatever the allocator returned (recorded as a C07 finding). -/
def norm (d : NodeData) : NodeData := { d with refCount := 0, addr := 0, extStateChange := false }

structure Loader where
  ids : Std.HashMap Nat Nat := {}
  heap : Array (Option (Cell NodeData)) := #[]
  inconsistent : Option String := none

mutual
  /-- Returns the reference for `t`; registers its cell (and, the first time, its children). -/
  def loadTree (l : Loader) : Tree → Loader × Ref NodeData
    | .mk d kids =>
      if d.addr == 0 then (l, .inl (norm d))
      else
        match l.ids.get? d.addr with
        | some id =>
          -- seen before: the shared cell must look the same from here
          let (l', ks) := loadKids l kids
          let same := match l'.heap.getD id none with
            | some c => c.rc == d.refCount && decide (c.kids = ks) && decide (c.data = norm d)
            | none => false
          (if same then l' else { l' with inconsistent := l'.inconsistent <|> some s!"cell {id} differs between two paths" }, .ptr id)
        | none =>
          let id := l.heap.size
          let l1 := { l with ids := l.ids.insert d.addr id, heap := l.heap.push none }
          let (l2, ks) := loadKids l1 kids
          ({ l2 with heap := l2.heap.set! id (some { rc := d.refCount, kids := ks, data := norm d }) }, .ptr id)
  def loadKids (l : Loader) : List Tree → Loader × List (Ref NodeData)
    | [] => (l, [])
    | t :: ts =>
      let (l1, r) := loadTree l t
      let (l2, rs) := loadKids l1 ts
      (l2, r :: rs)
end

/-- Handles are `(handle number, dump)`; handle numbers index `State.handles`. -/
def loadState (hs : List (Nat × Tree)) : State NodeData × Option String :=
  let nh := hs.foldl (fun m (h, _) => max m (h + 1)) 0
  let (l, handles) := hs.foldl (fun (acc : Loader × List (Option (Ref NodeData))) (h, t) =>
    let (l', r) := loadTree acc.1 t
    (l', acc.2.set h (some r))) (({} : Loader), List.replicate nh none)
  ({ heap := l.heap.toList, handles }, l.inconsistent)

/-- As `loadState`, also returning the address → cell id map. -/
def loadStateIds (hs : List (Nat × Tree)) : State NodeData × Std.HashMap Nat Nat :=
  let nh := hs.foldl (fun m (h, _) => max m (h + 1)) 0
  let (l, handles) := hs.foldl (fun (acc : Loader × List (Option (Ref NodeData))) (h, t) =>
    let (l', r) := loadTree acc.1 t
    (l', acc.2.set h (some r))) (({} : Loader), List.replicate nh none)
  ({ heap := l.heap.toList, handles }, l.ids)

mutual
  /-- The ownership view of a real re-parse result: cells whose address existed before are reused,
  everything else is fresh. -/
  def buildSpecOf (ids : Std.HashMap Nat Nat) : Tree → BuildSpec NodeData
    | .mk d kids =>
      if d.addr == 0 then .leaf (norm d)
      else match ids.get? d.addr with
        | some id => .reuse (.ptr id)
        | none => .node (norm d) (buildSpecsOf ids kids)
  def buildSpecsOf (ids : Std.HashMap Nat Nat) : List Tree → List (BuildSpec NodeData)
    | [] => []
    | t :: ts => buildSpecOf ids t :: buildSpecsOf ids ts
end

mutual
  def specReused : BuildSpec NodeData → Nat
    | .reuse _ => 1
    | .leaf _ => 0
    | .node _ ks => specReusedL ks
  def specReusedL : List (BuildSpec NodeData) → Nat
    | [] => 0
    | s :: ss => specReused s + specReusedL ss
end

/-! ## Judges on a (real) state -/

def countRef (refs : List (Ref NodeData)) (id : Nat) : Nat :=
  refs.foldl (fun n r => match r with | .ptr j => if j == id then n + 1 else n | .inl _ => n) 0

/-- `rc_invariant` decided on a state: every live cell's count equals the number of references to
it (`exact`), or is at least that (`exact = false`: something outside the dumped handles — the
parser's token cache — may hold more). -/
def judgeRc (s : State NodeData) (exact : Bool) : Option String :=
  let refs := s.refs
  let n := s.heap.length
  (List.range n).findSome? fun id =>
    match cellAt s.heap id with
    | none => none
    | some c =>
      let k := countRef refs id
      if c.rc == k || (!exact && c.rc ≥ k) then none
      else some s!"cell {id}: ref_count={c.rc} owners={k}"

def fuelOf (s : State NodeData) : Nat := s.heap.length + 2

/-- The explicit tree (payloads only) seen through handle `h`. -/
def observe (s : State NodeData) (h : Nat) : Option (OTree NodeData) :=
  match s.root h with
  | some r => unfold (fuelOf s) s.heap r
  | none => none

mutual
  def treeEq : OTree NodeData → OTree NodeData → Bool
    | .mk d ks, .mk d' ks' => decide (d = d') && treeEqL ks ks'
  def treeEqL : List (OTree NodeData) → List (OTree NodeData) → Bool
    | [], [] => true
    | t :: ts, t' :: ts' => treeEq t t' && treeEqL ts ts'
    | _, _ => false
end

def optTreeEq : Option (OTree NodeData) → Option (OTree NodeData) → Bool
  | some a, some b => treeEq a b
  | none, none => true
  | _, _ => false

/-- Isolation: every handle other than `target` observes the same tree before and after. -/
def judgeIsolated (before after : State NodeData) (target : Option Nat) : Option String :=
  (List.range before.handles.length).findSome? fun h =>
    if some h == target then none
    else if (before.root h).isNone then none
    else if optTreeEq (observe before h) (observe after h) then none
    else some s!"handle {h} observes a different tree"

/-! ## Canonical form (isomorphism up to cell ids) -/

structure CNode where
  ord : Nat          -- first-seen ordinal of the cell (0 for inline)
  rc : Nat
  data : NodeData
  nkids : Nat
  deriving DecidableEq, Inhabited

structure Canon where
  ids : Std.HashMap Nat Nat := {}
  out : Array CNode := #[]

partial def canonRef (h : Heap NodeData) (c : Canon) : Ref NodeData → Canon
  | .inl d => { c with out := c.out.push { ord := 0, rc := 0, data := d, nkids := 0 } }
  | .ptr id =>
    match cellAt h id with
    | none => { c with out := c.out.push { ord := 999999999, rc := 0, data := default, nkids := 0 } }
    | some cell =>
      match c.ids.get? id with
      | some o => { c with out := c.out.push { ord := o, rc := cell.rc, data := cell.data, nkids := 0 } }  -- back reference
      | none =>
        let o := c.ids.size + 1
        let c1 : Canon := { ids := c.ids.insert id o, out := c.out.push { ord := o, rc := cell.rc, data := cell.data, nkids := cell.kids.length } }
        cell.kids.foldl (canonRef h) c1

def canonState (s : State NodeData) : Array CNode × Nat :=
  let c := s.handles.foldl (fun (c : Canon) o => match o with
    | some r => canonRef s.heap { c with out := c.out.push { ord := 888888888, rc := 0, data := default, nkids := 0 } } r
    | none => { c with out := c.out.push { ord := 777777777, rc := 0, data := default, nkids := 0 } }) {}
  (c.out, c.ids.size)

def firstDiff (a b : Array CNode) : Option String :=
  if a.size != b.size then some s!"canonical sizes differ: model={a.size} real={b.size}"
  else (List.range a.size).findSome? fun i =>
    let x := a[i]!
    let y := b[i]!
    if x == y then none
    else if x.ord != y.ord then some s!"node {i}: sharing differs (model cell #{x.ord}, real cell #{y.ord})"
    else if x.rc != y.rc then some s!"node {i}: ref_count model={x.rc} real={y.rc}"
    else if x.nkids != y.nkids then some s!"node {i}: child count"
    else some s!"node {i}: payload differs model=(sym {x.data.symbol} pad {x.data.padding.bytes} size {x.data.size.bytes} chg {x.data.hasChanges} inl {x.data.isInline} la {x.data.lookahead} ec {x.data.errorCost} fl {x.data.fragileLeft}{x.data.fragileRight} col {x.data.dependsOnColumn} ext {x.data.hasExternalTokens}) real=(sym {y.data.symbol} pad {y.data.padding.bytes} size {y.data.size.bytes} chg {y.data.hasChanges} inl {y.data.isInline} la {y.data.lookahead} ec {y.data.errorCost} fl {y.data.fragileLeft}{y.data.fragileRight} col {y.data.dependsOnColumn} ext {y.data.hasExternalTokens})"

/-- Model state vs real state: same handles, same trees, same counts, same sharing, no extra live cell. -/
def diffStates (model real : State NodeData) : Option String :=
  let (cm, nm) := canonState model
  let (cr, _) := canonState real
  match firstDiff cm cr with
  | some d => some d
  | none =>
    if liveCount model.heap != nm then some s!"model has {liveCount model.heap} live cells, {nm} reachable (leak in the model run)"
    else none

/-! ## Which nodes `ts_subtree_edit` visits, and their new payload (from the C10 port) -/

open TsVerif.C10 in
mutual
  def visitSpec (t : TsVerif.Tree) (edit : C10.Edit) : EditSpec NodeData :=
    match t with
    | .mk d kids =>
      let is_noop := edit.old_end.bytes = edit.start.bytes ∧ edit.new_end.bytes = edit.start.bytes
      let total_size := length_add d.padding d.size
      let end_byte := total_size.bytes + d.lookahead
      if edit.start.bytes > end_byte ∨ (is_noop ∧ edit.start.bytes = end_byte) then .skip
      else
        let ps := reshape d.padding d.size edit
        let d' := store d ps.1 ps.2
        let cx : C10.Ctx :=
          { parentDependsOnColumn := d.dependsOnColumn
            columnShifted := decide (edit.new_end.extent.column ≠ edit.old_end.extent.column)
            isPureInsertion := decide (edit.old_end.bytes = edit.start.bytes)
            padding := ps.1, oldEnd := edit.old_end, start := edit.start }
        .visit (norm d') (d.isInline && !d'.isInline) (visitKids kids cx edit.new_end length_zero 0)
  def visitKids (kids : List TsVerif.Tree) (cx : C10.Ctx) (newEnd : Length) (childRight : Length) (i : Nat) :
      List (EditSpec NodeData) :=
    match kids with
    | [] => []
    | c :: rest =>
      let child_size := c.totalSize
      let child_left := childRight
      let child_right := length_add child_left child_size
      if child_right.bytes + c.data.lookahead < cx.start.bytes then
        .skip :: visitKids rest cx newEnd child_right (i + 1)
      else if stopsAt cx child_left child_size i c.data.dependsOnColumn then
        []
      else
        let ce_start := length_saturating_sub cx.start child_left
        let ce_old := length_saturating_sub cx.oldEnd child_left
        let ce_new := length_saturating_sub newEnd child_left
        if child_right.bytes > cx.start.bytes ∨ (child_right.bytes = cx.start.bytes ∧ cx.isPureInsertion) then
          visitSpec c { start := ce_start, old_end := ce_old, new_end := ce_new }
            :: visitKids rest cx cx.start child_right (i + 1)
        else
          visitSpec c { start := ce_start, old_end := ce_start, new_end := ce_start }
            :: visitKids rest cx newEnd child_right (i + 1)
end

mutual
  def specVisited : EditSpec NodeData → Nat
    | .skip => 0
    | .visit _ _ ks => 1 + specVisitedL ks
  def specVisitedL : List (EditSpec NodeData) → Nat
    | [] => 0
    | s :: ss => specVisited s + specVisitedL ss
end

end TsVerif.C08
